#!/usr/bin/env python3
"""Re-runs, several at a time,
  seeds  : every kept seeded change (seeded/C*-*) against the quick check of its own property (tools/seedcheck.py), or
  benign : every behaviour-preserving change (seeded/benign/*) against its own property's check plus the checks
           named after the parallelism (default C05 C06 C12 C13 C15 C19) (tools/benigncheck.py).
Usage: tools/parallel_regress.py seeds|benign [P] [checks...]   - from /verif or from a snapshot of it.
Prints one line per change; a summary at the end lists what was missed / what raised an alarm."""
import concurrent.futures, glob, json, os, shutil, subprocess, sys, tempfile

HERE = os.path.dirname(os.path.dirname(os.path.abspath(__file__)))
mode = sys.argv[1]
P = int(sys.argv[2]) if len(sys.argv) > 2 else 5
extra = sys.argv[3:] or ["C05", "C06", "C12", "C13", "C15", "C19"]


def run(d):
    ident = os.path.basename(d)
    pid, k = ident.split("-", 1)
    src = tempfile.mkdtemp(prefix="regr-", dir="/tmp")
    try:
        s = os.path.join(src, k)
        os.makedirs(s)
        for f in ("patch.diff", "demo_test.go", "equiv_test.go"):
            if os.path.exists(os.path.join(d, f)):
                shutil.copy(os.path.join(d, f), s)
        m = json.load(open(os.path.join(d, "meta.json")))
        keep = ("property", "summary", "needs", "files_changed", "needs_race", "why_equivalent")
        json.dump({x: m.get(x) for x in keep if x in m}, open(os.path.join(s, "meta.json"), "w"))
        if mode == "seeds":
            cmd = ["python3", os.path.join(HERE, "tools", "seedcheck.py"), s]
        else:
            cmd = ["python3", os.path.join(HERE, "tools", "benigncheck.py"), s] + sorted(set([pid] + extra))
        p = subprocess.run(cmd, cwd=HERE, stdout=subprocess.PIPE, stderr=subprocess.STDOUT, text=True, errors="replace")
        lines = [l for l in p.stdout.splitlines() if any(w in l for w in ("valid;", "REJECT", "WARNING", "ALARM", "quiet", "UNUSABLE"))]
        return ident, p.returncode, lines
    finally:
        shutil.rmtree(src, ignore_errors=True)


dirs = sorted(glob.glob(os.path.join(HERE, "seeded", "C*-*"))) if mode == "seeds" else sorted(glob.glob(os.path.join(HERE, "seeded", "benign", "C*")))
only = os.environ.get("REGRESS_ONLY", "").split()
if only:
    dirs = [d for d in dirs if os.path.basename(d).split("-")[0] in only]
bad = []
with concurrent.futures.ThreadPoolExecutor(P) as ex:
    for ident, code, lines in ex.map(run, dirs):
        print(ident, "exit", code, " | ".join(lines), flush=True)
        if code != 0:
            bad.append(ident)
print("SUMMARY %s: %d changes, %d need attention: %s" % (mode, len(dirs), len(bad), " ".join(bad)))
