#!/usr/bin/env python3
"""Runs every quick check against a behaviour-preserving change written by an independent sub-agent.

  tools/benigncheck.py /tmp/seed_out/C05/b1

Steps (scratch copy of /repo's HEAD under /tmp, removed afterwards):
  1. the patch applies and the repository's own suite passes on the patched tree
  2. the sub-agent's equivalence test passes on the pristine and on the patched tree
  3. every property's quick check runs against the patched copy (VERIF_REPO): all must exit 0
The change is stored as /verif/seeded/benign/<property>-<k>/ (patch.diff, equiv_test.go, meta.json with the results).
A check that raises an alarm is listed; whether the alarm is false (the change really preserves the
property) or the "benign" change is in fact breaking has to be judged by reading the message.
"""
import json, os, shutil, subprocess, sys, tempfile, time

HERE = os.path.dirname(os.path.dirname(os.path.abspath(__file__)))
ENV = dict(os.environ, GOFLAGS="-mod=mod", GOPROXY="off", GOSUMDB="off", GOTOOLCHAIN="local")
ALL = ["C%02d" % i for i in range(1, 21)]


def sh(cmd, cwd, env=ENV, timeout=1800):
    p = subprocess.run(cmd, cwd=cwd, env=env, stdout=subprocess.PIPE, stderr=subprocess.STDOUT, text=True, errors="replace", timeout=timeout)
    return p.returncode, p.stdout


def main():
    src = os.path.abspath(sys.argv[1])
    only = sys.argv[2:]
    meta = json.load(open(os.path.join(src, "meta.json")))
    pid = meta["property"]
    k = os.path.basename(src.rstrip("/"))
    tmp = tempfile.mkdtemp(prefix="benign-", dir="/tmp")
    out = {"property": pid, "id": "%s-%s" % (pid, k), "summary": meta.get("summary"), "why_equivalent": meta.get("why_equivalent"),
           "files_changed": meta.get("files_changed"), "benign": True, "ran": []}
    try:
        sh(["git", "-C", "/repo", "archive", "--format=tar", "HEAD", "-o", os.path.join(tmp, "src.tar")], "/repo")
        work = os.path.join(tmp, "w")
        os.makedirs(work)
        sh(["tar", "xf", os.path.join(tmp, "src.tar"), "-C", work], tmp)
        eq = os.path.join(src, "equiv_test.go")
        if os.path.exists(eq):
            shutil.copy(eq, os.path.join(work, "zz_equiv_test.go"))
            code, o = sh(["go", "test", "-vet=off", "-count=1", "-run", "TestSeedEquiv", "./..."], work)
            out["ran"].append({"step": "pristine + equivalence test", "exit": code})
            if code != 0:
                print("UNUSABLE: equivalence test fails on the pristine tree\n" + o[-800:])
                return 2
        sh(["git", "init", "-q"], work)
        code, o = sh(["git", "apply", "--whitespace=nowarn", os.path.join(src, "patch.diff")], work)
        if code != 0:
            print("UNUSABLE: patch does not apply\n" + o)
            return 2
        code, o = sh(["go", "test", "-vet=off", "-count=1", "./..."], work)
        out["ran"].append({"step": "patched + existing suite (+ equivalence test)", "exit": code})
        if code != 0:
            print("UNUSABLE: tests fail with the patch\n" + o[-1200:])
            return 2
        if os.path.exists(os.path.join(work, "zz_equiv_test.go")):
            os.remove(os.path.join(work, "zz_equiv_test.go"))
        shutil.rmtree(os.path.join(work, ".git"), ignore_errors=True)
        alarms = []
        for p in (only or ALL):
            t0 = time.time()
            code, o = sh([os.path.join(HERE, "check"), p, "quick"], HERE, dict(ENV, VERIF_REPO=work), timeout=3600)
            first = ""
            for line in o.splitlines():
                if line.startswith("--- "):
                    first = line[4:300]
                    break
            out["ran"].append({"step": "check", "property": p, "exit": code, "s": round(time.time() - t0, 1), "first_message": first})
            if code != 0:
                alarms.append(p)
                print("   ALARM %s (exit %d): %s" % (p, code, first[:220] or o[-300:].replace("\n", " ")))
        dst = os.path.join(HERE, "seeded", "benign", "%s-%s" % (pid, k))
        os.makedirs(dst, exist_ok=True)
        prevp = os.path.join(dst, "meta.json")
        if only and os.path.exists(prevp):
            # a partial re-run: keep the earlier results of the checks that were not run again
            prev = json.load(open(prevp))
            kept = [r for r in prev.get("ran", []) if r.get("step") == "check" and r.get("property") not in only]
            out["ran"] += kept
            alarms += [r["property"] for r in kept if r.get("exit") != 0]
        out["alarms"] = sorted(set(alarms))
        shutil.copy(os.path.join(src, "patch.diff"), dst)
        if os.path.exists(eq):
            shutil.copy(eq, dst)
        json.dump(out, open(os.path.join(dst, "meta.json"), "w"), indent=1)
        print("%s-%s: %s" % (pid, k, "all %d checks quiet" % len(only or ALL) if not alarms else "ALARMS in " + ",".join(alarms)))
        return 0 if not alarms else 1
    finally:
        shutil.rmtree(tmp, ignore_errors=True)


if __name__ == "__main__":
    sys.exit(main())
