# id, technique, level text, level note  (consumed by mkmanifest.py)
TRUST = "Trusted: Go toolchain, rapid v1.3.0, strconv/encoding/json as RFC 8259 and float-rounding reference. Absence of violations holds only for the generated cases (counts in the evidence file)."

claim("C01", "property-based round-trip testing (rapid value-tree generator with class-weighted hard leaves, kind-exact snapshot oracle) + coverage-guided fuzzing of the same generator",
      "Generated search: class-weighted value trees are serialised, re-parsed and compared with the generator's own tree by a kind-exact structural oracle that does not use the library's Equals, plus Equals in both directions and a second generation. Random search cannot prove the universal claim; it shows no counterexample among the counted cases and turned red on the seeded changes listed in DESIGN.md.",
      TRUST)

claim("C02", "property-based testing against an independent strict RFC 8259 scanner (differential with encoding/json) + exhaustive sweep of all Unicode scalar values + coverage-guided fuzzing",
      "Generated search: String() of class-weighted trees is read by a strict scanner written in the harness (cross-checked against encoding/json on every case) and the token tree is compared with the generator's tree; the finite sub-domain 'every Unicode scalar value in a value and in a key' is enumerated completely on every run. The rest is sampling.",
      TRUST)
claim("C03", "grammar-directed property-based generation of valid JSON with expected tree by construction, differential against a strict scanner and encoding/json; coverage-guided fuzzing of generator and raw bytes",
      "Generated search over derivations of the JSON grammar (whitespace positions, escape spellings per character, number spellings, duplicate keys, deep chains); the parser's result is compared kind-exactly with the tree known by construction. Sampling only; lone surrogates, out-of-range numbers and scalar roots are outside the property and excluded by construction.",
      TRUST)
claim("C04", "property-based testing and fuzzing of totality/exclusivity/determinism on arbitrary bytes, exhaustive enumeration of (parser state x next byte), exhaustive prefixes and ill-formed UTF-8 injections per generated document",
      "Generated search: random bytes, token soup and structural mutations of serialised documents go through all three entry points under a termination watchdog; per generated document every proper prefix and every (position x ill-formed sequence) injection is enumerated; every single byte is placed in every parser state once. Exhaustive only per document / per template, sampling otherwise.",
      TRUST + " The watchdog (10 s for inputs that parse in microseconds) is the only clock use and can only turn a hang into a report.")
claim("C16", "property-based testing with a canonical re-indenter oracle built from the output's own raw tokens + strict scanner + coverage-guided fuzzing",
      "Generated search over trees x indent values weighted to the boundaries: output must be non-empty valid JSON denoting the generated tree and equal byte-for-byte to the canonical layout recreated by the harness; outside 0..10 the call must panic; container unchanged.",
      TRUST)
claim("C20", "property-based generation of documents with one injected syntax error at a known byte offset; oracle = newline count before that offset",
      "Generated search: documents rendered with drawn newline layouts (LF/CRLF/blank lines/raw newline in strings/prefix text) and one injected error of each line-citing kind at drawn depth; the cited line must equal 1 + newlines before the detecting character recorded by the generator. Conditional property: accepted texts and errors without a line are counted, not judged.",
      TRUST)

MODEL = "Trusted: Go toolchain, rapid v1.3.0, and the reference model written in the harness (heap of sequences/maps with reference semantics, tree-form resolver/writer, typed structural equality). Absence of violations holds only for the generated programs (counts in the evidence file)."

claim("C05", "model-based (stateful) property testing: programs-as-data interpreted against a reference heap of sequences with reference semantics, full-heap comparison after every step",
      "Generated search over operation sequences with raw arguments mapped relative to the model state (valid and invalid indices/ranges, self-Concat, shared nested containers, growth across capacity boundaries). After every step every container ever created is compared with the model through the public API, and panics must occur exactly when the model says the argument is outside the documented domain.",
      MODEL)
claim("C06", "model-based (stateful) property testing: programs-as-data interpreted against a reference heap of string-keyed maps with reference semantics, full-heap comparison after every step",
      "Generated search over object operation sequences (Set with repeated keys / odd counts / non-string keys, Unset, Merge incl. self, Pluck, typed getter matrix, Contains/KeyOf) with keys from a hostile pool; every container is compared with the model after every step. Where the statement is silent (state after a Set that panics on a late non-string key; identity of nested containers in a Merge result) both behaviours are accepted.",
      MODEL)
claim("C07", "property-based testing of Equals against typed structural equality computed on the generator's own trees (one-edit metamorphic pairs, triples)",
      "Generated search over pairs/triples related by exactly one (or two) known edits at a drawn depth, order permutations, copies and unrelated trees; Equals must agree with the harness's typed structural equality for all ordered pairs, never panic and never modify an operand.",
      MODEL)
claim("C08", "property-based testing of Clone: identity-disjointness oracle plus stateful mutation sequences on either side with snapshot comparison of the other side",
      "Generated search over trees (incl. DAGs) and 1-12 mutations at drawn nodes of original or clone (methods and tree-form writes); after every mutation the other side's snapshot (content bits and container identities) must be unchanged; reachable identity sets must be disjoint.",
      MODEL)
claim("C09", "property-based testing with receiver histories (length/capacity conditions), derivation table and later mutations; oracle = top-level slot snapshots of every participant",
      "Generated search over receiver/argument histories that vary the length/capacity relation, one or two derivations from the full table of deriving operations, and later top-level mutations of any participant (containers, Go slices and maps); every other participant's slot snapshot must be unchanged.",
      MODEL)
claim("C10", "property-based testing of tree-form reads against a stepwise resolver over the implementation tree; path corruptions generated from resolvable paths",
      "Generated search over trees x (resolvable walks, 15 kinds of one-step corruptions, arbitrary strings over the path alphabet); a resolver in the harness using only Get/TypeOf/KeyExists/Count decides the expected outcome. Index spellings that are not canonical decimal but that a lenient integer parser accepts are only checked for panic-freedom (the statement leaves them open).",
      MODEL)
claim("C11", "model-based property testing of tree-form writes against a reference writer over a model tree with container identities",
      "Generated search over trees x sequences of SetTF/UnsetTF with well-formed paths steered through all cells of (container kind x next segment x situation); after every write the whole tree must equal the reference model including which containers are reused (identical) and which are newly created (never seen before).",
      MODEL)
claim("C12", "property-based testing over Go dynamic types x insertion entry points against an independent type switch; typed-getter matrix",
      "Generated search over all supported dynamic types with full ranges and 22 unsupported types, nested inside []any/map[string]any, through 35 entry points; expected kind/value from an independent type switch; Get's Go type, TypeOf, the six typed getters and the stored content are all checked; unsupported values must panic and leave an existing container unchanged.",
      MODEL)
claim("C13", "property-based round-trip testing of native conversions plus four-party non-aliasing checks under generated modification sequences",
      "Generated search over native trees with typed flavours and sized numbers: container content, NativeDict/NativeSlice (reflective walk for plain types, bit-exact content), Dict/Slice (entries == Get); then modifications of container / native export / one-level export / source at any nested node must leave the three other parties unchanged.",
      MODEL)
claim("C14", "property-based testing of every typed view against the model subsequence (callback logs, injective tags, non-commutative folds); method table cross-checked by reflection",
      "Generated search over kind sequences with repetition; every typed and untyped view of lists and objects is compared with the expected subsequence/multiset (order, multiplicity, identity). New view methods in the interface are reported as unclassified.",
      MODEL)
claim("C15", "property-based schedule control (gated callbacks released in generated permutations, generated yields, GOMAXPROCS) with the Go race detector as an additional oracle; concurrent read-only operation mixes vs sequential results",
      "Generated search: the harness owns callback completion order and parallelism; completion-at-return, exactly-once delivery, MapAsync == Map and concurrent-vs-sequential results are checked, and the race detector judges every execution that happened. The Go scheduler's interleavings inside the library are sampled, not enumerated; liveness is checked only through watchdog-free draining (a missing Wait is seen deterministically because callbacks cannot finish before their gate opens).",
      MODEL + " The race detector only sees executions that occurred. Fallback timers (2-3 s) only prevent the harness from deadlocking on a broken implementation; they never decide a verdict.")
claim("C17", "property-based testing of Sort/Reverse: ordered + multiset-preserving + idempotent; involution by identity; panic clause",
      "Generated search over homogeneous lists with duplicates and extremes (both directions checked: ordered and a permutation), Reverse on lists of any kinds by identity, and the panic clause with unchanged list.",
      MODEL)
claim("C18", "property-based testing of numeric aggregates against math/big folds (exact class) and rounding-error bounds (general class); exact Min/Max over the full range",
      "Generated search over numeric lists in four classes; exact equality where every evaluation order gives the same float64, a standard forward error bound otherwise so a legal re-association cannot raise an alarm; the Int* family against wrapping integer folds on lists with interleaved non-ints.",
      MODEL + " math/big is trusted for exact arithmetic.")
claim("C19", "property-based testing of identity preservation on user-defined derived types (1-3 embedding levels); fluent method set enumerated from the interfaces by reflection",
      "Generated search over programs of fluent calls (every method x every branch x every embedding depth appears; unknown fluent methods are reported) and over 14 storage entry points x all retrieval paths; every result must be the identical registered outer value.",
      MODEL)
