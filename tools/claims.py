# id, technique, level text, level note  (consumed by mkmanifest.py)
TRUST = "Trusted: Go toolchain, rapid v1.3.0, strconv/encoding/json as RFC 8259 and float-rounding reference. Absence of violations holds only for the generated cases (counts in the evidence file)."

claim("C01", "property-based round-trip testing (rapid value-tree generator with class-weighted hard leaves, kind-exact snapshot oracle) + coverage-guided fuzzing of the same generator",
      "Generated search: class-weighted value trees are serialised, re-parsed and compared with the generator's own tree by a kind-exact structural oracle that does not use the library's Equals, plus Equals in both directions and a second generation. Random search cannot prove the universal claim; it shows no counterexample among the counted cases and turned red on the seeded changes listed in DESIGN.md.",
      TRUST)
