# id, technique, level text, level note  (consumed by mkmanifest.py)
TRUST = "Trusted: Go toolchain, rapid v1.3.0, strconv/encoding/json as RFC 8259 and float-rounding reference. Absence of violations holds only for the generated cases (counts in the evidence file)."

claim("C01", "property-based round-trip testing (rapid value-tree generator with class-weighted hard leaves, kind-exact snapshot oracle) + coverage-guided fuzzing of the same generator",
      "Generated search: class-weighted value trees are serialised, re-parsed and compared with the generator's own tree by a kind-exact structural oracle that does not use the library's Equals, plus Equals in both directions and a second generation. Random search cannot prove the universal claim; it shows no counterexample among the counted cases and turned red on the seeded changes listed in DESIGN.md.",
      TRUST)

claim("C02", "property-based testing against an independent strict RFC 8259 scanner (differential with encoding/json) + exhaustive sweep of all Unicode scalar values + coverage-guided fuzzing",
      "Generated search: String() of class-weighted trees is read by a strict scanner written in the harness (cross-checked against encoding/json on every case) and the token tree is compared with the generator's tree; the finite sub-domain 'every Unicode scalar value in a value and in a key' is enumerated completely on every run. The rest is sampling.",
      TRUST)
claim("C03", "grammar-directed property-based generation of valid JSON with expected tree by construction, differential against a strict scanner and encoding/json; coverage-guided fuzzing of generator and raw bytes",
      "Generated search over derivations of the JSON grammar (whitespace positions, escape spellings per character, number spellings, duplicate keys, deep chains); the parser's result is compared kind-exactly with the tree known by construction. Sampling only; lone surrogates, out-of-range numbers and scalar roots are outside the property and excluded by construction.",
      TRUST)
claim("C04", "property-based testing and fuzzing of totality/exclusivity/determinism on arbitrary bytes, exhaustive enumeration of (parser state x next byte), exhaustive prefixes and ill-formed UTF-8 injections per generated document",
      "Generated search: random bytes, token soup and structural mutations of serialised documents go through all three entry points under a termination watchdog; per generated document every proper prefix and every (position x ill-formed sequence) injection is enumerated; every single byte is placed in every parser state once. Exhaustive only per document / per template, sampling otherwise.",
      TRUST + " The watchdog (10 s for inputs that parse in microseconds) is the only clock use and can only turn a hang into a report.")
claim("C16", "property-based testing with a canonical re-indenter oracle built from the output's own raw tokens + strict scanner + coverage-guided fuzzing",
      "Generated search over trees x indent values weighted to the boundaries: output must be non-empty valid JSON denoting the generated tree and equal byte-for-byte to the canonical layout recreated by the harness; outside 0..10 the call must panic; container unchanged.",
      TRUST)
claim("C20", "property-based generation of documents with one injected syntax error at a known byte offset; oracle = newline count before that offset",
      "Generated search: documents rendered with drawn newline layouts (LF/CRLF/blank lines/raw newline in strings/prefix text) and one injected error of each line-citing kind at drawn depth; the cited line must equal 1 + newlines before the detecting character recorded by the generator. Conditional property: accepted texts and errors without a line are counted, not judged.",
      TRUST)
