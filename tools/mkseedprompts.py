# Generates the prompt files for a round of independent seeded changes (one file per pair of properties under /tmp/r14/prompts;
# the sub-agents are told to read their file). Adjust the paths and the theme paragraph per round. See DESIGN.md section 10.
import json, os, glob
props = {}
for l in open('/verif/properties.jsonl'):
    p = json.loads(l); props[p['id']] = p
prev = {}
for d in sorted(glob.glob('/verif/seeded/C*-*') + glob.glob('/verif/seeded/rejected/C*-*')):
    try: m = json.load(open(d + '/meta.json'))
    except Exception: continue
    prev.setdefault(m['property'], []).append((m.get('summary') or '')[:170].replace('\n', ' '))
ids = sorted(props)
pairs = [(ids[i], ids[i+1]) for i in range(0, 20, 2)]
for a, b in pairs:
    wt = '/tmp/wt14/%s_%s' % (a, b)
    t = []
    t.append(f"""You are helping to evaluate how sensitive a test framework is. You work ONLY in your own scratch git worktree of a small Go library (github.com/DanielSvub/anytype: dynamic JSON-like Object/List containers, hand-written JSON parser, serializer, dotted/hash 'tree form' paths): {wt}
Never read or write anything under /repo or /verif. Every shell call needs: export GOFLAGS=-mod=mod GOPROXY=off GOSUMDB=off GOTOOLCHAIN=local   (no network; nothing can be fetched; do not let go rewrite go.sum - check git status).

TASK: for EACH of the two properties below, write ONE source change (so two changes in total) to the library that BREAKS the property while (1) the library still compiles, (2) the existing test suite, unedited, still passes with the change (go test -vet=off -count=1 ./...), and (3) the change looks like something a maintainer could plausibly commit (an optimisation, a refactoring, a hardening, a small feature, a bug fix with a side effect) - no comments announcing a bug, no magic constants without a plausible reason.

The change must need something SPECIFIC to manifest - not something ordinary use would expose at once. This round's theme: the violation needs a HISTORY THAT CROSSES TWO DIFFERENT AREAS OF THE API before the property is observed - for example parse -> mutate -> serialise; derive (SubList/Concat/Filter/Map/Clone/Merge/Pluck) -> mutate one side -> observe the other through a view or an aggregate; tree-form write -> Clone or native export -> tree-form read; typed view -> Sort/Reverse/Insert -> typed view; store a container in two parents -> change it through one -> observe through the other; a failed call (panic recovered by the caller, or a parse error) -> a later successful call. Internal state that survives between calls (summaries, flags, caches, pools, memo tables, owner pointers, package-level buffers) is the natural vehicle, but the violation must show ONLY after such a cross-area history, and it should additionally depend on a second condition (a size of at least 300 elements / fields, a container of a user-defined derived type, an unusual value such as -0.0, NaN, MinInt, an empty key or an ill-formed UTF-8 string, a particular kind at a particular position). The change must be clearly different from the earlier changes listed under each property (those have been used already; do not repeat their mechanism). Keep your responses short; make small focused edits (a patch under ~60 changed lines, a demo under ~60 lines).

For every change deliver, in directory /tmp/seed_out14/<PROPERTY_ID>/<k>/ (k = 1):
  patch.diff    - `git diff` of the library change alone, relative to the worktree root (must apply with `git apply` to a clean checkout of HEAD);
  demo_test.go  - package anytype_test (external test package importing "github.com/DanielSvub/anytype"), one function `func TestSeedDemo(t *testing.T)` (helpers allowed) that PASSES on the unchanged library and FAILS with the change; it must demonstrate a violation of the property as stated (use only behaviour the property text promises); it must be deterministic (for schedule-dependent changes it may loop; then set needs_race true if it must run with -race);
  meta.json     - {{"property": "<ID>", "summary": "<what the change does, 2-4 sentences>", "needs": "<what exactly is needed for the violation to manifest>", "files_changed": [...], "needs_race": false}}
Verify everything yourself before delivering: (a) clean tree + demo passes: copy demo_test.go to the worktree root as zz_seed_demo_test.go and run `go test -vet=off -count=1 -run TestSeedDemo ./...`; (b) patched tree: `go test -vet=off -count=1 ./...` (whole existing suite) passes without the demo file present; (c) patched tree + demo fails. Then `git checkout -- . && git clean -fdq` before starting the next change, so that each patch.diff is relative to the clean HEAD. Leave the worktree clean at the end. Do not commit anything.
Work through both; if one idea turns out to be caught by the existing tests, change the idea rather than the tests. At the end reply with a short list: for each change its id, one line of what it does, and confirmation of (a)(b)(c).
""")
    for pid in (a, b):
        p = props[pid]
        t.append(f"\n=== PROPERTY {pid}: {p['title']} ===\nStatement: {p['statement']}\nQuantified over: {p['quantifier']['text']}\nCode anchors: " + '; '.join(m['name'] + ' (' + m['where'] + ')' for m in p['anchors']['mechanism']) + "\n")
        t.append(f"Earlier changes already used for {pid} (do NOT repeat these mechanisms):\n" + '\n'.join('  - ' + s for s in prev.get(pid, [])) + "\n")
    open('/tmp/r14/prompts/%s_%s.txt' % (a, b), 'w').write(''.join(t))
    print(a, b, len(''.join(t)))
