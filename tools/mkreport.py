#!/usr/bin/env python3
"""Regenerates the generated part of DESIGN.md section 10 (between the markers
<!-- BEGIN GENERATED SENSITIVITY --> and <!-- END GENERATED SENSITIVITY -->) from
seeded/*/meta.json and tools/mutants.log."""
import glob, json, os, re

HERE = os.path.dirname(os.path.dirname(os.path.abspath(__file__)))


def esc(s):
    s = (s or "").replace("|", "\\|").replace("\n", " ")
    # messages quote document bytes: keep the report plain text
    return "".join(ch if (ch >= " " and ch != "\x7f" and not ("\ud800" <= ch <= "\udfff") and ch != "\ufffd") else "?" for ch in s)


def short(s, n):
    s = esc(s)
    return s if len(s) <= n else s[: n - 1] + "…"


out = []
# ---- independent seeded changes -------------------------------------------------
rows = []
for d in sorted(glob.glob(os.path.join(HERE, "seeded", "C*"))):
    m = json.load(open(os.path.join(d, "meta.json")))
    own = m.get("caught_by_own_property")
    others = [p for p in m.get("caught_by", []) if p != m["property"]]
    msg = ""
    for r in m.get("ran", []):
        if r.get("step") == "check" and r.get("exit") == 1 and r["cmd"].split()[-2] == m["property"]:
            msg = r.get("first_message", "")
    rows.append((m["id"], m["property"], short(m.get("summary"), 150), short(m.get("needs"), 170), "yes" if own else "NO", ",".join(others), short(msg, 110)))
out.append("### Independent seeded changes (`seeded/<id>/`)\n")
out.append("%d changes written by sub-agents that saw only the property text and a scratch worktree; each was validated (pristine + demo passes, patched suite passes, patched + demo fails) before it was kept.\n" % len(rows))
out.append("| id | what the change does | what it needs to manifest | caught by own check (quick) | also caught by | first message of the check |")
out.append("|---|---|---|---|---|---|")
for r in rows:
    out.append("| %s | %s | %s | %s | %s | %s |" % (r[0], r[2], r[3], r[4], r[5], r[6]))
caught = sum(1 for r in rows if r[4] == "yes")
out.append("\n%d of %d are caught by the quick check of the property they were written against.\n" % (caught, len(rows)))
noted = []
for d in sorted(glob.glob(os.path.join(HERE, "seeded", "C*"))):
    m = json.load(open(os.path.join(d, "meta.json")))
    if not m.get("caught_by_own_property"):
        noted.append("* `%s` - reported by %s. %s" % (m["id"], ", ".join(m.get("caught_by", [])) or "NO CHECK", esc(m.get("note", "(no note)"))))
if noted:
    out.append("Kept although the check of their own property does not flag them (the reason is in `meta.json`):\n")
    out.extend(noted)
    out.append("")
rej = sorted(glob.glob(os.path.join(HERE, "seeded", "rejected", "*")))
if rej:
    out.append("Rejected (valid patch and demonstration, but not a violation of the property as stated):\n")
    for d in rej:
        m = json.load(open(os.path.join(d, "meta.json")))
        out.append("* `%s` — %s **Reason:** %s" % (os.path.basename(d), esc(m.get("summary")), esc(m.get("reason"))))
    out.append("")

# ---- independent behaviour-preserving changes ---------------------------------------------
ben = sorted(glob.glob(os.path.join(HERE, "seeded", "benign", "C*")))
if ben:
    out.append("### Independent behaviour-preserving changes (`seeded/benign/<id>/`)\n")
    out.append("Refactorings and optimisations written by sub-agents with the instruction to preserve behaviour completely (each comes with an equivalence test that passes on both trees). All 20 quick checks were run against each patched copy.\n")
    out.append("| id | change | result of the 20 quick checks |")
    out.append("|---|---|---|")
    quiet = 0
    for d in ben:
        m = json.load(open(os.path.join(d, "meta.json")))
        alarms = m.get("alarms", [])
        verdict = m.get("verdict", "")
        if not alarms:
            quiet += 1
        out.append("| %s | %s | %s |" % (m["id"], short(m.get("summary"), 200), "all quiet" if not alarms else ("alarm in " + ",".join(alarms) + (" - " + esc(verdict) if verdict else ""))))
    out.append("\n%d of %d changes leave every check quiet.\n" % (quiet, len(ben)))

# ---- own mutants ---------------------------------------------------------------------
logp = os.path.join(HERE, "tools", "mutants.log")
if os.path.exists(logp):
    last = {}
    for line in open(logp):
        r = json.loads(line)
        last[r["name"]] = r
    exec(open(os.path.join(HERE, "tools", "mutant_table.py")).read())
    benign = {m["name"] for m in MUTANTS if m.get("benign")}
    names = [m["name"] for m in MUTANTS]
    out.append("### My own seeded source changes (`tools/mutant_table.py`, applied by `tools/mutants.py`)\n")
    out.append("Each is a string replacement on a scratch copy; only changes that keep the repository's own suite green are listed (changes the suite catches were dropped from the table). `caught` = quick check exits 1 with a VIOLATION line.\n")
    out.append("| change | property: result (seconds) |")
    out.append("|---|---|")
    nc = nm = 0
    for n in names:
        r = last.get(n)
        if not r or n in benign:
            continue
        if r["tests"] != "pass":
            out.append("| %s | not usable: repository tests %s |" % (n, r["tests"]))
            continue
        cells = []
        for pid, x in r["props"].items():
            ok = x["exit"] == 1
            nc += ok
            nm += (not ok)
            cells.append("%s: %s (%.0f s)" % (pid, "caught" if ok else "**missed** (exit %d)" % x["exit"], x["s"]))
        out.append("| %s | %s |" % (n, "; ".join(cells)))
    out.append("\n%d (change, property) pairs caught, %d missed.\n" % (nc, nm))
    out.append("Behaviour-preserving changes (every listed check must stay quiet):\n")
    out.append("| change | checks run | result |")
    out.append("|---|---|---|")
    for n in names:
        r = last.get(n)
        if not r or n not in benign:
            continue
        bad = [p for p, x in r["props"].items() if x["exit"] != 0]
        out.append("| %s | %s | %s |" % (n, ",".join(r["props"].keys()), "all quiet" if not bad else "**alarm in " + ",".join(bad) + "**"))
    out.append("")

text = "\n".join(out)
p = os.path.join(HERE, "DESIGN.md")
s = open(p).read()
b, e = "<!-- BEGIN GENERATED SENSITIVITY -->", "<!-- END GENERATED SENSITIVITY -->"
if b in s and e in s:
    s = s[: s.index(b) + len(b)] + "\n" + text + "\n" + s[s.index(e):]
    open(p, "w").write(s)
    print("DESIGN.md section 10 regenerated: %d seeded, mutants %s" % (len(rows), "yes" if os.path.exists(logp) else "no"))
else:
    print(text)
