#!/usr/bin/env python3
"""Validates a seeded breaking change written by an independent sub-agent and
runs the checks against it.

  tools/seedcheck.py /tmp/seed_out/C05/1 [--all] [--tier quick|thorough]

Steps (all in a scratch copy of /repo's HEAD outside /repo and /verif, removed afterwards):
  1. pristine tree + demo_test.go: `go test -run TestSeedDemo` must PASS
  2. patch applies; patched tree: the repository's own suite must PASS
  3. patched tree + demo: TestSeedDemo must FAIL
  4. ./check <property> quick against the patched copy (VERIF_REPO): exit 1 expected
     (--all: every property's quick check, to fill the catch matrix)
On success of 1-3 the change is stored as /verif/seeded/<property>-<k>/ with
patch.diff, the demonstration and meta.json (what it breaks, what it needs, what was run).
"""
import json, os, shutil, subprocess, sys, tempfile, time

HERE = os.path.dirname(os.path.dirname(os.path.abspath(__file__)))
ENV = dict(os.environ, GOFLAGS="-mod=mod", GOPROXY="off", GOSUMDB="off", GOTOOLCHAIN="local")
ALL = ["C%02d" % i for i in range(1, 21)]


def sh(cmd, cwd, env=ENV, timeout=900):
    p = subprocess.run(cmd, cwd=cwd, env=env, stdout=subprocess.PIPE, stderr=subprocess.STDOUT, text=True, errors="replace", timeout=timeout)
    return p.returncode, p.stdout


def main():
    args = [a for a in sys.argv[1:] if not a.startswith("--")]
    src = os.path.abspath(args[0])
    run_all = "--all" in sys.argv
    tier = "thorough" if "--thorough" in sys.argv else "quick"
    meta = json.load(open(os.path.join(src, "meta.json")))
    pid = meta["property"]
    k = os.path.basename(src.rstrip("/"))
    race = bool(meta.get("needs_race"))
    tmp = tempfile.mkdtemp(prefix="seedchk-", dir="/tmp")
    out = {"property": pid, "id": "%s-%s" % (pid, k), "summary": meta.get("summary"), "needs": meta.get("needs"),
           "files_changed": meta.get("files_changed"), "needs_race": race, "ran": []}
    try:
        code, o = sh(["git", "-C", "/repo", "archive", "--format=tar", "HEAD", "-o", os.path.join(tmp, "src.tar")], "/repo")
        work = os.path.join(tmp, "w")
        os.makedirs(work)
        sh(["tar", "xf", os.path.join(tmp, "src.tar"), "-C", work], tmp)
        demo = os.path.join(work, "zz_seed_demo_test.go")
        shutil.copy(os.path.join(src, "demo_test.go"), demo)
        testcmd = ["go", "test"] + (["-race"] if race else []) + ["-vet=off", "-count=1", "-run", "TestSeedDemo", "./..."]
        code, o = sh(testcmd, work)
        out["ran"].append({"step": "pristine + demo", "cmd": " ".join(testcmd), "exit": code})
        if code != 0:
            print("REJECT: the demonstration fails on the pristine tree\n" + o[-1500:])
            return 2
        os.remove(demo)
        code, o = sh(["git", "init", "-q"], work)
        code, o = sh(["git", "apply", "--whitespace=nowarn", os.path.join(src, "patch.diff")], work)
        if code != 0:
            print("REJECT: patch does not apply\n" + o)
            return 2
        code, o = sh(["go", "test", "-vet=off", "-count=1", "./..."], work)
        out["ran"].append({"step": "patched + existing suite", "cmd": "go test -vet=off -count=1 ./...", "exit": code})
        if code != 0:
            print("REJECT: the existing suite fails with the patch\n" + o[-1500:])
            return 2
        shutil.copy(os.path.join(src, "demo_test.go"), demo)
        fails = 0
        for _ in range(3 if race else 1):
            code, o = sh(testcmd, work)
            fails += code != 0
        out["ran"].append({"step": "patched + demo", "cmd": " ".join(testcmd), "exit": code, "failed_runs": fails})
        if fails == 0:
            print("REJECT: the demonstration passes with the patch")
            return 2
        os.remove(demo)
        shutil.rmtree(os.path.join(work, ".git"), ignore_errors=True)
        props = ALL if run_all else [pid]
        caught_by = []
        for p in props:
            t0 = time.time()
            code, o = sh([os.path.join(HERE, "check"), p, tier], HERE, dict(ENV, VERIF_REPO=work), timeout=3600)
            first = ""
            for line in o.splitlines():
                if line.startswith("--- "):
                    first = line[4:240]
                    break
            out["ran"].append({"step": "check", "cmd": "VERIF_REPO=<patched copy> ./check %s %s" % (p, tier), "exit": code, "s": round(time.time() - t0, 1), "first_message": first})
            if code == 1:
                caught_by.append(p)
            elif code != 0:
                print("WARNING: check %s exit %d\n%s" % (p, code, o[-800:]))
        out["caught_by"] = caught_by
        out["caught_by_own_property"] = pid in caught_by
        dst = os.path.join(HERE, "seeded", "%s-%s" % (pid, k))
        os.makedirs(dst, exist_ok=True)
        prev = {}
        if os.path.exists(os.path.join(dst, "meta.json")):
            prev = json.load(open(os.path.join(dst, "meta.json")))
        if prev.get("note"):
            out["note"] = prev["note"]
        if prev.get("caught_by") and not run_all:
            out["caught_by"] = sorted(set(prev["caught_by"]) | set(caught_by)) if pid in caught_by else [p for p in prev["caught_by"] if p != pid] + caught_by
        shutil.copy(os.path.join(src, "patch.diff"), dst)
        shutil.copy(os.path.join(src, "demo_test.go"), os.path.join(dst, "demo_test.go"))
        json.dump(out, open(os.path.join(dst, "meta.json"), "w"), indent=1)
        print("%s-%s: valid; %s: %s%s" % (pid, k, tier, "CAUGHT by " + ",".join(caught_by) if caught_by else "MISSED", "" if pid in caught_by or not caught_by else " (not by its own property)"))
        for r in out["ran"]:
            if r["step"] == "check" and r["exit"] == 1:
                print("   %s: %s" % (r["cmd"].split()[-2], r["first_message"][:160]))
        return 0 if pid in caught_by else 1
    finally:
        shutil.rmtree(tmp, ignore_errors=True)


if __name__ == "__main__":
    sys.exit(main())
