#!/usr/bin/env python3
"""Regenerates /verif/MANIFEST.json from the table below (run from /verif)."""
import json, os, subprocess

HERE = os.path.dirname(os.path.dirname(os.path.abspath(__file__)))

# id -> (technique, level text, level note)
CLAIMED = {}
def claim(pid, technique, text, note):
    CLAIMED[pid] = (technique, text, note)

exec(open(os.path.join(HERE, "tools", "claims.py")).read())

ALL = [json.loads(l)["id"] for l in open(os.path.join(HERE, "properties.jsonl"))]
PENDING_REASON = "check not yet built in this session (all properties are planned; see DESIGN.md section 9 build order)"

checks = []
for pid in ALL:
    if pid not in CLAIMED:
        continue
    technique, text, note = CLAIMED[pid]
    checks.append({
        "property_id": pid,
        "quick_cmd": "./check %s quick" % pid,
        "thorough_cmd": "./check %s thorough" % pid,
        "evidence_file": "/verif/evidence/%s.json" % pid,
        "replay_cmd_template": "./check --replay {path}",
        "engine": "harness",
        "level_claimed": {"category": "exploration", "text": text, "design_ref": "DESIGN.md section 4, §%s" % pid},
        "level_note": note,
        "technique": technique,
    })

manifest = {
    "version": 1,
    "setup_cmd": "./setup.sh",
    "hooks": {
        "guard": "verif",
        "enable": "no hooks are needed: every oracle observes through the public API; checks build /repo as it is via a go.mod replace directive",
        "baseline_off_cmd": "cd /repo && go test -vet=off -count=1 ./...",
        "source_commits": [],
        "add_only": True,
    },
    "engines": [{
        "name": "harness",
        "path": "/verif/harness",
        "serves_properties": sorted(CLAIMED),
        "kind_free_text": "Go module with pgregory.net/rapid v1.3.0 generators (programs-as-data, class-weighted value trees), reference models/oracles written in the harness, native go-fuzz targets driven through rapid.MakeFuzz or raw bytes (thorough tier), race detector for C15; python3 driver ./check shards by seed, merges statistics and writes evidence",
    }],
    "checks": checks,
    "notes": "Property-based testing and fuzzing only. Replay: ./check --replay <file>. Known findings and fixed defects: KNOWN_FINDINGS.json. VERIF_SEED selects the rapid seeds; VERIF_CASES_SCALE scales case counts.",
    "not_applicable": [{"property_id": p, "reason": PENDING_REASON} for p in ALL if p not in CLAIMED],
}
json.dump(manifest, open(os.path.join(HERE, "MANIFEST.json"), "w"), indent=1)
print("claimed", len(checks), "not_applicable", len(manifest["not_applicable"]))
