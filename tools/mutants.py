#!/usr/bin/env python3
"""Sensitivity runs: apply each seeded source change (string replacement) to a
scratch copy of /repo outside /repo and /verif, confirm the copy still builds and
passes the repository's own tests, run the quick check of the named properties
against the copy (VERIF_REPO) and expect exit 1.

  tools/mutants.py            run all mutants
  tools/mutants.py NAME...    run the named mutants (prefix match)
  tools/mutants.py -p C05     run the mutants that name property C05

The table lives in tools/mutant_table.py.  Results are appended to
tools/mutants.log and summarised on stdout.  Nothing is ever written to /repo.
"""
import os, shutil, subprocess, sys, tempfile, time, json

HERE = os.path.dirname(os.path.dirname(os.path.abspath(__file__)))
exec(open(os.path.join(HERE, "tools", "mutant_table.py")).read())  # defines MUTANTS

ENV = dict(os.environ, GOFLAGS="-mod=mod", GOPROXY="off", GOSUMDB="off", GOTOOLCHAIN="local")


def run_one(m):
    name, edits, props = m["name"], m["edits"], m["props"]
    tmp = tempfile.mkdtemp(prefix="sens-", dir="/tmp")
    res = {"name": name, "props": {}, "tests": None}
    try:
        for f in os.listdir("/repo"):
            if f == ".git":
                continue
            src = os.path.join("/repo", f)
            if os.path.isdir(src):
                shutil.copytree(src, os.path.join(tmp, f))
            else:
                shutil.copy(src, tmp)
        for e in edits:
            fname, old, new = e[0], e[1], e[2]
            nth = e[3] if len(e) > 3 else 0   # which occurrence (0-based) or "all"
            p = os.path.join(tmp, fname)
            s = open(p).read()
            if nth == "all":
                if s.count(old) < 1:
                    res["tests"] = "EDIT-NOT-APPLICABLE (%s)" % fname
                    return res
                s = s.replace(old, new)
            else:
                idx = -1
                for _ in range(nth + 1):
                    idx = s.find(old, idx + 1)
                    if idx < 0:
                        break
                if idx < 0:
                    res["tests"] = "EDIT-NOT-APPLICABLE (%s)" % fname
                    return res
                s = s[:idx] + new + s[idx + len(old):]
            open(p, "w").write(s)
        t = subprocess.run(["go", "test", "-vet=off", "-count=1", "./..."], cwd=tmp, env=ENV, stdout=subprocess.PIPE, stderr=subprocess.STDOUT, text=True, errors="replace")
        res["tests"] = "pass" if t.returncode == 0 else "FAIL"
        if t.returncode != 0:
            res["test_output"] = t.stdout[-600:]
            if not m.get("allow_test_fail"):
                return res
        for pid in props:
            env = dict(ENV, VERIF_REPO=tmp)
            t0 = time.time()
            c = subprocess.run([os.path.join(HERE, "check"), pid, "quick"], cwd=HERE, env=env, stdout=subprocess.PIPE, stderr=subprocess.STDOUT, text=True, errors="replace")
            first = ""
            for line in c.stdout.splitlines():
                if line.startswith("--- "):
                    first = line[:200]
                    break
            res["props"][pid] = {"exit": c.returncode, "s": round(time.time() - t0, 1), "msg": first if c.returncode == 1 else c.stdout[-300:]}
    finally:
        shutil.rmtree(tmp, ignore_errors=True)
    return res


def main():
    args = sys.argv[1:]
    sel = MUTANTS
    if args and args[0] == "-p":
        sel = [m for m in MUTANTS if args[1] in m["props"]]
        for m in sel:
            m["props"] = [args[1]]
    elif args:
        sel = [m for m in MUTANTS if any(m["name"].startswith(a) for a in args)]
    bad = 0
    log = open(os.path.join(HERE, "tools", "mutants.log"), "a")
    for m in sel:
        r = run_one(m)
        log.write(json.dumps(r) + "\n")
        log.flush()
        if r["tests"] != "pass":
            print("%-40s repo tests: %s" % (r["name"], r["tests"]))
            if not m.get("allow_test_fail"):
                bad += 1
                continue
        for pid, x in r["props"].items():
            if m.get("benign"):
                ok = x["exit"] == 0
                if not ok:
                    bad += 1
                print("%-40s %s %-8s %5.1fs %s" % (r["name"], pid, "quiet" if ok else "FALSE-ALARM(exit %d)" % x["exit"], x["s"], "" if ok else x["msg"][:110].replace("\n", " ")))
                continue
            ok = x["exit"] == 1
            if not ok:
                bad += 1
            print("%-40s %s %-8s %5.1fs %s" % (r["name"], pid, "CAUGHT" if ok else "MISSED(exit %d)" % x["exit"], x["s"], x["msg"][:110].replace("\n", " ")))
    print("not caught / unusable:", bad)
    # clean findings written by sensitivity runs
    return 1 if bad else 0


if __name__ == "__main__":
    sys.exit(main())
