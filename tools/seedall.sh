#!/bin/sh
# Runs every kept seeded change of /verif/seeded through its own property's quick check
# (tools/seedcheck.py re-validates each change first). Usage: tools/seedall.sh [--all]
cd "$(dirname "$0")/.."
for d in seeded/C*; do
  id=$(basename "$d")
  src=$(mktemp -d /tmp/seedsrc-XXXXXX)
  k=${id#*-}
  mkdir -p "$src/$k"
  cp "$d/patch.diff" "$d/demo_test.go" "$src/$k/"
  python3 - "$d/meta.json" "$src/$k/meta.json" <<'PY'
import json,sys
m=json.load(open(sys.argv[1]))
json.dump({"property":m["property"],"summary":m.get("summary"),"needs":m.get("needs"),"files_changed":m.get("files_changed"),"needs_race":m.get("needs_race",False)},open(sys.argv[2],"w"))
PY
  python3 tools/seedcheck.py "$src/$k" "$@" 2>&1 | grep -E "valid;|REJECT|WARNING" 
  rm -rf "$src"
done
