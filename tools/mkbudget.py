#!/usr/bin/env python3
"""Regenerates the budget table of DESIGN.md section 9 (between the markers
<!-- BEGIN GENERATED BUDGETS --> and <!-- END GENERATED BUDGETS -->) from the CFG table of ./check,
the wall times of the evidence files (quick tier) and, if given, the log of a thorough run
(lines 'CNN thorough: N cases, ... 16 shards, T s')."""
import json, os, re, sys

HERE = os.path.dirname(os.path.dirname(os.path.abspath(__file__)))
src = open(os.path.join(HERE, "check")).read()
ns = {}
exec(src[src.index("CFG = {"):src.index("\n}\n", src.index("CFG = {")) + 3], ns)
CFG = ns["CFG"]
thor = {}
if len(sys.argv) > 1 and os.path.exists(sys.argv[1]):
    for line in open(sys.argv[1], errors="replace"):
        m = re.match(r"(C\d\d) thorough: (\d+) cases, (\d+) non-trivial \((\d+) distinct\), (\d+) shards, ([\d.]+)s(.*)", line)
        if m:
            thor[m.group(1)] = (int(m.group(2)), int(m.group(4)), float(m.group(6)), m.group(7).strip(", "))
rows = ["| ID | quick: shards × rapid cases (+ extras) | quick: cases run / distinct non-trivial / wall | thorough: shards × rapid cases (+ fuzz) | last full thorough run: cases / distinct non-trivial / wall |", "|---|---|---|---|---|"]
for pid in sorted(CFG):
    c = CFG[pid]
    q, t = c["quick"], c["thorough"]
    extra = (" + " + ", ".join(c["extra"])) if c.get("extra") else ""
    fuzz = (" + " + ", ".join("%s %d s" % f for f in c["fuzz"])) if c.get("fuzz") else ""
    ev = {}
    p = os.path.join(HERE, "evidence", pid + ".json")
    if os.path.exists(p):
        ev = json.load(open(p))
    cov = ev.get("coverage", {})
    qres = "%d / %d / %.0f s" % (cov.get("evaluations", 0), cov.get("distinct_nontrivial", 0), ev.get("wall_s", 0)) if ev.get("tier") == "quick" else ""
    tr = thor.get(pid)
    tres = "%d / %d / %.0f s%s" % (tr[0], tr[1], tr[2], (" (" + tr[3] + ")") if tr[3] else "") if tr else ""
    rows.append("| %s | %d × %d%s%s | %s | %d × %d%s%s | %s |" % (pid, q[0], q[1], extra, " (`-race` build)" if c.get("race") else "", qres, t[0], t[1], extra, fuzz, tres))
text = "\n".join(rows)
p = os.path.join(HERE, "DESIGN.md")
s = open(p).read()
b, e = "<!-- BEGIN GENERATED BUDGETS -->", "<!-- END GENERATED BUDGETS -->"
if b in s and e in s:
    s = s[: s.index(b) + len(b)] + "\n" + text + "\n" + s[s.index(e):]
    open(p, "w").write(s)
    print("DESIGN.md section 9 table regenerated (%d thorough results)" % len(thor))
else:
    print(text)
