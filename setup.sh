#!/bin/sh
# Offline warm-up: checks that the cached modules are usable and pre-builds the
# harness once so the first check does not pay the cold compile.
set -e
cd "$(dirname "$0")"
export GOFLAGS=-mod=mod GOPROXY=off GOSUMDB=off GOTOOLCHAIN=local
test -d "$(go env GOMODCACHE)/pgregory.net/rapid@v1.3.0" || { echo "rapid v1.3.0 missing from module cache"; exit 2; }
./check --build-only
# warm the race-enabled standard library for C15 (no-op if already cached)
(cd harness && go test -race -c -o /dev/null . >/dev/null 2>&1 || true)
echo "setup ok"
