package harness

import (
	"fmt"
	"math"
	"sort"

	at "github.com/DanielSvub/anytype"
	"pgregory.net/rapid"
)

// ---- reference heap model (shared by C05 and C06) --------------------------
//
// Scalars are held by value, containers by reference to a model node. Every
// model node is bound to the implementation container that represents it, so
// "Get returns the identical nested container" is decidable with ==.

type mval struct {
	k   Kind
	b   bool
	i   int
	f   float64
	s   string
	ref *mnode // for KList / KObject
}

type mnode struct {
	id     int
	isList bool
	elems  []mval
	fields map[string]mval
	impl   any // at.List or at.Object
}

type heap struct {
	nodes   []*mnode // every node ever created (bound)
	lists   []*mnode // live (addressable by ops)
	objects []*mnode
	byImpl  map[any]*mnode
}

func newHeap() *heap { return &heap{byImpl: map[any]*mnode{}} }

func (h *heap) bind(n *mnode, impl any) {
	n.id = len(h.nodes)
	n.impl = impl
	h.nodes = append(h.nodes, n)
	h.byImpl[impl] = n
}

func (h *heap) newList(impl at.List, elems []mval, live bool) *mnode {
	n := &mnode{isList: true, elems: elems}
	h.bind(n, impl)
	if live {
		h.lists = append(h.lists, n)
	}
	return n
}

func (h *heap) newObject(impl at.Object, fields map[string]mval, live bool) *mnode {
	n := &mnode{fields: fields}
	h.bind(n, impl)
	if live {
		h.objects = append(h.objects, n)
	}
	return n
}

func (m mval) String() string {
	switch m.k {
	case KNil:
		return "nil"
	case KBool:
		return fmt.Sprint(m.b)
	case KInt:
		return fmt.Sprintf("int(%d)", m.i)
	case KFloat:
		return "float(" + fmtG(m.f) + ")"
	case KString:
		return fmt.Sprintf("%+q", m.s)
	case KList:
		return fmt.Sprintf("list#%d", m.ref.id)
	case KObject:
		return fmt.Sprintf("object#%d", m.ref.id)
	}
	return "?"
}

// goValue is the Go value handed to the library for this model value.
func (m mval) goValue() any {
	switch m.k {
	case KNil:
		return nil
	case KBool:
		return m.b
	case KInt:
		return m.i
	case KFloat:
		return m.f
	case KString:
		return m.s
	}
	return m.ref.impl
}

// eqAny compares a model value with what the library handed out: scalars by
// dynamic type and ==, containers by identity.
func (m mval) eqAny(x any) bool {
	switch m.k {
	case KNil:
		return x == nil
	case KBool:
		v, ok := x.(bool)
		return ok && v == m.b
	case KInt:
		v, ok := x.(int)
		return ok && v == m.i
	case KFloat:
		v, ok := x.(float64)
		return ok && v == m.f
	case KString:
		v, ok := x.(string)
		return ok && v == m.s
	}
	return x == m.ref.impl
}

// eq is Go interface equality between two model values (what Contains/IndexOf/KeyOf use).
func (m mval) eq(o mval) bool {
	if m.k != o.k {
		return false
	}
	switch m.k {
	case KNil:
		return true
	case KBool:
		return m.b == o.b
	case KInt:
		return m.i == o.i
	case KFloat:
		return m.f == o.f
	case KString:
		return m.s == o.s
	}
	return m.ref == o.ref
}

func showAny(x any) string {
	switch v := x.(type) {
	case nil:
		return "nil"
	case at.List:
		return fmt.Sprintf("List%s", clip(v.String(), 60))
	case at.Object:
		return fmt.Sprintf("Object%s", clip(v.String(), 60))
	case string:
		return fmt.Sprintf("%+q", v)
	}
	return fmt.Sprintf("%T(%v)", x, x)
}

// reaches reports whether node target is reachable from node from (inclusive).
func reaches(from, target *mnode) bool {
	seen := map[*mnode]bool{}
	var rec func(n *mnode) bool
	rec = func(n *mnode) bool {
		if n == target {
			return true
		}
		if seen[n] {
			return false
		}
		seen[n] = true
		if n.isList {
			for _, e := range n.elems {
				if e.ref != nil && rec(e.ref) {
					return true
				}
			}
		} else {
			for _, e := range n.fields {
				if e.ref != nil && rec(e.ref) {
					return true
				}
			}
		}
		return false
	}
	return rec(from)
}

// ---- value specifications (programs are data) --------------------------------

// ValSpec describes a value to insert: a scalar, or (K list/object) a raw
// selector of a live heap container resolved at interpretation time.
type ValSpec struct {
	K   Kind   `json:"k"`
	B   bool   `json:"b,omitempty"`
	I   int64  `json:"i,omitempty"`
	F   uint64 `json:"f,omitempty"`
	S   string `json:"s,omitempty"`
	Ref int    `json:"ref,omitempty"`
}

var smallStrings = []string{"", "a", "b", "ab", "A", "é", "a.b", "#1", "z", "caf\u00e9", "\u00ff"}

func genValSpec(t *rapid.T, containerWeight int) ValSpec {
	switch pick(t, "vk", 2, 2, 6, 4, 5, containerWeight, containerWeight) {
	case 0:
		return ValSpec{K: KNil}
	case 1:
		return ValSpec{K: KBool, B: drawBool(t, "b")}
	case 2:
		if drawInt(t, 0, 3, "smallint") > 0 {
			return ValSpec{K: KInt, I: int64(drawInt(t, -3, 3, "i"))}
		}
		i, _ := GenInt(t)
		return ValSpec{K: KInt, I: int64(i)}
	case 3:
		if drawInt(t, 0, 2, "smallfloat") > 0 {
			return ValSpec{K: KFloat, F: math.Float64bits(float64(drawInt(t, -6, 6, "f")) / 2)}
		}
		f, _ := GenFloat(t)
		return ValSpec{K: KFloat, F: math.Float64bits(f)}
	case 4:
		if drawInt(t, 0, 3, "smallstr") > 0 {
			return ValSpec{K: KString, S: smallStrings[drawIdx(t, len(smallStrings), "s")]}
		}
		return ValSpec{K: KString, S: GenString(t, 6)}
	case 5:
		return ValSpec{K: KList, Ref: drawInt(t, 0, 63, "ref")}
	}
	return ValSpec{K: KObject, Ref: drawInt(t, 0, 63, "ref")}
}

// resolve turns a spec into a model value. A container reference is resolved
// against the live containers; into (may be nil) is the container the value is
// about to be stored in: if storing would create a cycle (or no live container
// of that kind exists) the spec degrades to an int scalar.
func (h *heap) resolve(v ValSpec, into *mnode) mval {
	switch v.K {
	case KNil:
		return mval{k: KNil}
	case KBool:
		return mval{k: KBool, b: v.B}
	case KInt:
		return mval{k: KInt, i: int(v.I)}
	case KFloat:
		return mval{k: KFloat, f: math.Float64frombits(v.F)}
	case KString:
		return mval{k: KString, s: v.S}
	case KList:
		if len(h.lists) > 0 {
			n := h.lists[v.Ref%len(h.lists)]
			if into == nil || !reaches(n, into) {
				return mval{k: KList, ref: n}
			}
		}
	case KObject:
		if len(h.objects) > 0 {
			n := h.objects[v.Ref%len(h.objects)]
			if into == nil || !reaches(n, into) {
				return mval{k: KObject, ref: n}
			}
		}
	}
	return mval{k: KInt, i: v.Ref}
}

// ---- comparison of the whole heap with the implementation --------------------

func (h *heap) compareAll() error {
	for _, n := range h.nodes {
		if err := h.compareNode(n); err != nil {
			return err
		}
	}
	return nil
}

// scribble is written over results the library handed out (Slice, Dict, Keys, Values) after they were
// compared; if the library kept a reference to such a result, the next comparison sees it.
type scribble struct{}

func (h *heap) compareNode(n *mnode) error {
	if n.isList {
		l := n.impl.(at.List)
		if l.Count() != len(n.elems) {
			return errf("list#%d: Count() = %d, model has %d elements (%s)", n.id, l.Count(), len(n.elems), clip(l.String(), 200))
		}
		if l.Empty() != (len(n.elems) == 0) {
			return errf("list#%d: Empty() = %v with %d elements", n.id, l.Empty(), len(n.elems))
		}
		sl := l.Slice()
		if len(sl) != len(n.elems) {
			return errf("list#%d: Slice() has %d entries, model %d", n.id, len(sl), len(n.elems))
		}
		for i, e := range n.elems {
			if got := l.TypeOf(i); got != typeOfKind(e.k) {
				return errf("list#%d[%d]: TypeOf = %d, model kind %v (%v)", n.id, i, got, e.k, e)
			}
			g := l.Get(i)
			if !e.eqAny(g) {
				return errf("list#%d[%d]: Get = %s, model %v", n.id, i, showAny(g), e)
			}
			if !e.eqAny(sl[i]) {
				return errf("list#%d[%d]: Slice()[i] = %s, model %v", n.id, i, showAny(sl[i]), e)
			}
		}
		// lookups agree with a scan of the model for the first, the middle and the last element
		if cnt := len(n.elems); cnt > 0 {
			for _, at0 := range [3]int{cnt - 1, 0, cnt / 2} {
				e := n.elems[at0]
				want := -1
				for i, x := range n.elems {
					if x.eq(e) {
						want = i
						break
					}
				}
				if got := l.IndexOf(e.goValue()); got != want {
					return errf("list#%d: IndexOf(%v) = %d, the first element equal to it is at %d (of %d)", n.id, e, got, want, cnt)
				}
				if got := l.Contains(e.goValue()); got != (want >= 0) {
					return errf("list#%d: Contains(%v) = %v, but the element at %d (of %d) holds it", n.id, e, got, at0, cnt)
				}
			}
		}
		if l.TypeOf(len(n.elems)) != at.TypeUndefined || l.TypeOf(-1) != at.TypeUndefined {
			return errf("list#%d: TypeOf outside 0..n-1 is not TypeUndefined", n.id)
		}
		// the caller owns what Slice() returned: overwriting it must not show in any later observation
		for i := range sl {
			sl[i] = scribble{}
		}
		return nil
	}
	o := n.impl.(at.Object)
	if o.Count() != len(n.fields) {
		return errf("object#%d: Count() = %d, model has %d fields (%s)", n.id, o.Count(), len(n.fields), clip(o.String(), 200))
	}
	if o.Empty() != (len(n.fields) == 0) {
		return errf("object#%d: Empty() = %v with %d fields", n.id, o.Empty(), len(n.fields))
	}
	keys := o.Keys()
	if keys.Count() != len(n.fields) {
		return errf("object#%d: Keys() has %d entries, model %d", n.id, keys.Count(), len(n.fields))
	}
	seen := map[string]bool{}
	for i := 0; i < keys.Count(); i++ {
		k, ok := keys.Get(i).(string)
		if !ok {
			return errf("object#%d: Keys()[%d] is %s", n.id, i, showAny(keys.Get(i)))
		}
		if seen[k] {
			return errf("object#%d: Keys() lists %+q twice", n.id, k)
		}
		seen[k] = true
		if _, ok := n.fields[k]; !ok {
			return errf("object#%d: Keys() lists %+q which the model does not have", n.id, k)
		}
	}
	dict := o.Dict()
	if len(dict) != len(n.fields) {
		return errf("object#%d: Dict() has %d entries, model %d", n.id, len(dict), len(n.fields))
	}
	vals := o.Values()
	if vals.Count() != len(n.fields) {
		return errf("object#%d: Values() has %d entries, model %d", n.id, vals.Count(), len(n.fields))
	}
	used := make([]bool, vals.Count())
	// big objects: Values() is matched as a multiset through a map first (the quadratic scan below is kept
	// for small objects and for anything the map cannot hold)
	fastVals := false
	if len(n.fields) > 48 {
		bag := map[any]int{}
		ok := true
		for i := 0; i < vals.Count() && ok; i++ {
			switch v := vals.Get(i).(type) {
			case nil, bool, int, float64, string, at.List, at.Object:
				if f, isF := v.(float64); isF && f != f {
					ok = false
				}
				bag[v]++
			default:
				ok = false
			}
		}
		if ok {
			for _, e := range n.fields {
				bag[e.goValue()]--
			}
			for _, c := range bag {
				if c != 0 {
					ok = false
				}
			}
		}
		fastVals = ok // on any mismatch the scan below finds and names the field
	}
	for _, k := range sortedFieldKeys(n) {
		e := n.fields[k]
		if !o.KeyExists(k) {
			return errf("object#%d: KeyExists(%+q) false, model has the key", n.id, k)
		}
		if got := o.TypeOf(k); got != typeOfKind(e.k) {
			return errf("object#%d[%+q]: TypeOf = %d, model kind %v", n.id, k, got, e.k)
		}
		g := o.Get(k)
		if !e.eqAny(g) {
			return errf("object#%d[%+q]: Get = %s, model %v", n.id, k, showAny(g), e)
		}
		d, ok := dict[k]
		if !ok || !e.eqAny(d) {
			return errf("object#%d[%+q]: Dict entry = %s (present %v), model %v", n.id, k, showAny(d), ok, e)
		}
		// Values() as a multiset
		found := fastVals
		for i := 0; i < vals.Count() && !found; i++ {
			if !used[i] && e.eqAny(vals.Get(i)) {
				used[i] = true
				found = true
				break
			}
		}
		if !found {
			return errf("object#%d: Values() lacks an entry for field %+q = %v (Values: %s)", n.id, k, e, clip(vals.String(), 200))
		}
	}
	// lookups by value agree with the model for the fields under the first and the last key
	if ks := sortedFieldKeys(n); len(ks) > 0 {
		for _, k := range [2]string{ks[0], ks[len(ks)-1]} {
			e := n.fields[k]
			if e.k == KFloat && e.f != e.f {
				continue
			}
			if !o.Contains(e.goValue()) {
				return errf("object#%d: Contains(%v) = false although the field %+q holds it (%d fields)", n.id, e, k, len(ks))
			}
			gk, panicked := "", false
			func() {
				defer func() { panicked = recover() != nil }()
				gk = o.KeyOf(e.goValue())
			}()
			if h, ok := n.fields[gk]; panicked || !ok || !h.eq(e) {
				return errf("object#%d: KeyOf(%v) = %+q (panicked: %v), which does not hold that value; %+q does (%d fields)", n.id, e, gk, panicked, k, len(ks))
			}
		}
	}
	// the caller owns Dict(), Keys() and Values(): changing them must not show in any later observation
	for k := range dict {
		dict[k] = scribble{}
	}
	dict["\x00scribble"] = 1
	keys.Add("\x00scribble")
	vals.Add("\x00scribble")
	if keys.Count() > 1 {
		keys.Replace(0, "\x00scribble0")
		vals.Replace(0, "\x00scribble0")
	}
	return nil
}

func sortedFieldKeys(n *mnode) []string {
	ks := make([]string, 0, len(n.fields))
	for k := range n.fields {
		ks = append(ks, k)
	}
	sort.Strings(ks)
	return ks
}

// getterMatrixList checks the six typed getters at index i of a list.
func getterMatrixList(l at.List, i int, want mval, inRange bool) error {
	type g struct {
		k Kind
		f func() any
	}
	gs := []g{
		{KObject, func() any { return l.GetObject(i) }}, {KList, func() any { return l.GetList(i) }},
		{KString, func() any { return l.GetString(i) }}, {KBool, func() any { return l.GetBool(i) }},
		{KInt, func() any { return l.GetInt(i) }}, {KFloat, func() any { return l.GetFloat(i) }},
	}
	for _, x := range gs {
		var got any
		_, panicked := catch(func() { got = x.f() })
		should := inRange && want.k == x.k
		if should && panicked {
			return errf("typed getter for %v panicked at index %d holding %v", x.k, i, want)
		}
		if !should && !panicked {
			return errf("typed getter for %v returned %s at index %d (in range: %v) holding %v; it must panic", x.k, showAny(got), i, inRange, want)
		}
		if should && !want.eqAny(got) {
			return errf("typed getter for %v returned %s, model %v", x.k, showAny(got), want)
		}
	}
	var got any
	_, panicked := catch(func() { got = l.Get(i) })
	if inRange == panicked {
		return errf("Get(%d) panicked=%v but index in range=%v", i, panicked, inRange)
	}
	if inRange && !want.eqAny(got) {
		return errf("Get(%d) = %s, model %v", i, showAny(got), want)
	}
	return nil
}

// getterMatrixObject checks Get and the six typed getters for key k.
func getterMatrixObject(o at.Object, k string, want mval, present bool) error {
	type g struct {
		k Kind
		f func() any
	}
	gs := []g{
		{KObject, func() any { return o.GetObject(k) }}, {KList, func() any { return o.GetList(k) }},
		{KString, func() any { return o.GetString(k) }}, {KBool, func() any { return o.GetBool(k) }},
		{KInt, func() any { return o.GetInt(k) }}, {KFloat, func() any { return o.GetFloat(k) }},
	}
	for _, x := range gs {
		var got any
		_, panicked := catch(func() { got = x.f() })
		should := present && want.k == x.k
		if should && panicked {
			return errf("typed getter for %v panicked for key %+q holding %v", x.k, k, want)
		}
		if !should && !panicked {
			return errf("typed getter for %v returned %s for key %+q (present: %v) holding %v; it must panic", x.k, showAny(got), k, present, want)
		}
		if should && !want.eqAny(got) {
			return errf("typed getter for %v returned %s for key %+q, model %v", x.k, showAny(got), k, want)
		}
	}
	var got any
	_, panicked := catch(func() { got = o.Get(k) })
	if present == panicked {
		return errf("Get(%+q) panicked=%v but key present=%v", k, panicked, present)
	}
	if present && !want.eqAny(got) {
		return errf("Get(%+q) = %s, model %v", k, showAny(got), want)
	}
	if o.KeyExists(k) != present {
		return errf("KeyExists(%+q) = %v, model %v", k, o.KeyExists(k), present)
	}
	wantT := at.TypeUndefined
	if present {
		wantT = typeOfKind(want.k)
	}
	if o.TypeOf(k) != wantT {
		return errf("TypeOf(%+q) = %d, want %d", k, o.TypeOf(k), wantT)
	}
	return nil
}
