package harness

import (
	"encoding/json"
	"fmt"
	at "github.com/DanielSvub/anytype"
	"math"
	"os"
	"path/filepath"
	"sort"
	"strings"
	"testing"

	"pgregory.net/rapid"
)

func TestMain(m *testing.M) {
	if files := os.Getenv("VERIF_MERGE"); files != "" {
		n, err := MergeHashes(strings.Split(files, ":"))
		if err != nil {
			fmt.Fprintln(os.Stderr, err)
			os.Exit(2)
		}
		fmt.Printf("DISTINCT %d\n", n)
		os.Exit(0)
	}
	// a multi-line environment variable: documents of C04/C20 mention it, and no entry point may expand it
	os.Setenv("VERIF_NL", "line1\nline2\nline3")
	code := m.Run()
	CleanupScratch()
	DumpStats()
	os.Exit(code)
}

func currentProp(t testing.TB) *Prop {
	id := os.Getenv("VERIF_PROP")
	p := registry[id]
	if p == nil {
		t.Skipf("VERIF_PROP=%q not registered", id)
	}
	return p
}

// TestProp is the rapid-driven generation tier for the property in $VERIF_PROP.
func TestProp(t *testing.T) {
	p := currentProp(t)
	rapid.Check(t, func(rt *rapid.T) {
		c := p.Gen(rt)
		if err := RunCase(p, c); err != nil {
			rt.Fatalf("%s: %v", p.ID, err)
		}
	})
}

func loadReplay(path string) (*Prop, any, error) {
	b, err := os.ReadFile(path)
	if err != nil {
		return nil, nil, err
	}
	var r Replay
	if err := json.Unmarshal(b, &r); err != nil {
		return nil, nil, fmt.Errorf("%s: %v", path, err)
	}
	p := registry[r.Property]
	if p == nil {
		return nil, nil, fmt.Errorf("%s: unknown property %q", path, r.Property)
	}
	c := p.New()
	if err := json.Unmarshal(r.Case, c); err != nil {
		return nil, nil, fmt.Errorf("%s: case: %v", path, err)
	}
	return p, c, nil
}

// TestCorpus replays every file of $VERIF_CORPUS (a directory) for $VERIF_PROP.
func TestCorpus(t *testing.T) {
	p := currentProp(t)
	dir := os.Getenv("VERIF_CORPUS")
	if dir == "" {
		t.Skip("no corpus")
	}
	files, _ := filepath.Glob(filepath.Join(dir, "*.json"))
	sort.Strings(files)
	for _, f := range files {
		rp, c, err := loadReplay(f)
		if err != nil {
			fmt.Printf("CORPUS-ERROR %s %v\n", f, err)
			t.Errorf("corpus file unreadable: %v", err)
			continue
		}
		if rp != p {
			continue
		}
		global.Count("corpus.files")
		if err := SafeCheck(p, c, global); err != nil {
			fmt.Printf("CORPUS-FAIL %s\n", f)
			t.Errorf("%s: %v", f, err)
		}
	}
}

// TestReplay re-runs the single case in $VERIF_REPLAY without rapid.
func TestReplay(t *testing.T) {
	path := os.Getenv("VERIF_REPLAY")
	if path == "" {
		t.Skip("no replay file")
	}
	p, c, err := loadReplay(path)
	if err != nil {
		fmt.Printf("REPLAY-ERROR %v\n", err)
		t.Fatalf("%v", err)
	}
	if err := SafeCheck(p, c, global); err != nil {
		fmt.Printf("REPLAY-FAIL %s %s\n", p.ID, path)
		t.Fatalf("%s: %v", p.ID, err)
	}
	fmt.Printf("REPLAY-PASS %s %s\n", p.ID, path)
}

// fuzzProp runs a registered rapid generator under the native fuzzer: the fuzz
// bytes are rapid's bit stream, so the same generator and oracle are driven by
// coverage feedback.
func fuzzProp(f *testing.F, id string) {
	p := registry[id]
	if p == nil {
		f.Skip("not registered")
	}
	f.Add([]byte{})
	f.Fuzz(rapid.MakeFuzz(func(rt *rapid.T) {
		c := p.Gen(rt)
		if err := RunCase(p, c); err != nil {
			rt.Fatalf("%s: %v", p.ID, err)
		}
	}))
}

// TestC12Reject: whatever an insertion that was correctly rejected leaves behind (a counter, a mark, a
// lock) must not make later insertions of supported values fail. Tens of thousands of nested values
// holding an unsupported value are offered through several entry points (each panic recovered, as a
// caller would), then a supported nested value must go through every entry point as usual.
func TestC12Reject(t *testing.T) {
	p := registry["C12"]
	type unsupported struct{ X int }
	deep := any(make(chan int))
	for i := 0; i < 60; i++ {
		if i%2 == 0 {
			deep = []any{1, deep}
		} else {
			deep = map[string]any{"k": deep}
		}
	}
	host, obj := at.NewList(1, 2, 3), at.NewObject("a", 1)
	rejected := 0
	offer := func(f func()) {
		if _, panicked := catch(f); panicked {
			rejected++
		}
	}
	for i := 0; i < 12000; i++ {
		bad := []any{i, unsupported{i}}
		badMap := map[string]any{"a": []any{unsupported{i}}}
		switch i % 6 {
		case 0:
			offer(func() { at.NewList(bad) })
		case 1:
			offer(func() { host.Add(badMap) })
		case 2:
			offer(func() { obj.Set("k", bad) })
		case 3:
			offer(func() { host.SetTF("#1", badMap) })
		case 4:
			offer(func() { host.Replace(0, []any{[]any{bad}}) })
		default:
			offer(func() { at.NewObject("k", badMap) })
		}
		if i%40 == 0 {
			offer(func() { host.Insert(1, deep) })
		}
	}
	global.CountN("reject.rejected_nested_values", rejected)
	good := TV{T: "slice_any", Items: []TV{{T: "map_any", Items: []TV{{T: "int", I: 1}, {T: "slice_any", Items: []TV{{T: "string", S: "x"}}}}, Keys: []string{"a", "b"}}, {T: "float32", F: uint64(math.Float32bits(1.5))}}}
	goodMap := TV{T: "map_any", Items: []TV{good, {T: "nil"}}, Keys: []string{"l", "n"}}
	for _, e := range c12Entries {
		for _, v := range []TV{good, goodMap} {
			if err := RunCase(p, &C12Case{Val: v, Entry: e}); err != nil {
				t.Fatalf("C12 after %d rejected insertions, entry %s: %v", rejected, e, err)
			}
		}
	}
}

// TestC02Sweep enumerates every Unicode scalar value (exhaustive sub-domain of C02).
func TestC02Sweep(t *testing.T) {
	p := registry["C02"]
	for b := 0; b < sweepBlocks; b++ {
		if err := RunCase(p, &C02Case{Sweep: b}); err != nil {
			t.Fatalf("C02 sweep block %d: %v", b, err)
		}
	}
}

// c04Templates: one hole (§) per parser state; TestC04Enum fills it with every
// single byte value, so every (state, next byte) transition of both state
// machines is exercised for totality / exclusivity / determinism.
var c04Templates = []string{
	"[§]", "[1§]", "[\"§\"]", "[\"\\§\"]", "[\"a\"§]", "[\"a\"§,1]", "{§}", "{\"§\":1}", "{\"\\§\":1}", "{\"a\"§:1}", "{\"a\":§}", "{\"a\":1§}",
	"{\"a\":\"§\"}", "{\"a\":\"\\§\"}", "{\"a\":\"b\"§}", "{\"a\":[]§}", "{\"a\":{}§}", "[[]§]", "[{}§]", "§[1]", "§{\"a\":1}", "[1]§", "{\"a\":1}§",
	"[tru§]", "{\"a\":1,§}", "{\"a\":[1,§]}", "[{\"a\":§}]", "[\"\\u00§\"]", "{\"\\ud83d\\§\":1}",
}

func TestC04Enum(t *testing.T) {
	p := registry["C04"]
	for _, tpl := range c04Templates {
		for b := 0; b < 256; b++ {
			in := strings.Replace(tpl, "§", string([]byte{byte(b)}), 1)
			if err := RunCase(p, &C04Case{Mode: "bytes", Bytes: RawBytes(in)}); err != nil {
				t.Fatalf("C04 enumeration %q with byte 0x%02x: %v", tpl, b, err)
			}
		}
	}
	global.CountN("enum.state_byte_pairs", len(c04Templates)*256)
	// every word of a lexicon of literal look-alikes in every value position
	for _, tpl := range []string{"[§]", "[1,§,2]", "{\"a\":§}", "{\"a\":[§]}", "[{\"k\":§}]", "[§", "{\"a\":§"} {
		for _, w := range c04Words {
			in := strings.Replace(tpl, "§", w, 1)
			if err := RunCase(p, &C04Case{Mode: "bytes", Bytes: RawBytes(in)}); err != nil {
				t.Fatalf("C04 word enumeration %q with %q: %v", tpl, w, err)
			}
		}
	}
	global.CountN("enum.literal_words", 7*len(c04Words))
	// every escape spelling of a lexicon (JSON escapes, Go-only escapes that decode to arbitrary bytes,
	// broken ones) inside a string value and inside a key, at several depths
	for _, tpl := range []string{"[\"§\"]", "{\"§\":1}", "{\"a\":\"§\"}", "[{\"§\":[]}]", "{\"k\":{\"§\":null}}", "[\"a§b\",\"§\"]", "{\"§\":{\"§\":\"§\"}}"} {
		for _, e := range c04Escapes {
			in := strings.ReplaceAll(tpl, "§", e)
			if err := RunCase(p, &C04Case{Mode: "bytes", Bytes: RawBytes(in)}); err != nil {
				t.Fatalf("C04 escape enumeration %q with %q: %v", tpl, e, err)
			}
		}
	}
	global.CountN("enum.escape_spellings", 7*len(c04Escapes))
	// a key repeated inside one object, with every pair of value kinds, at several depths
	kinds := []string{"1", "\"s\"", "null", "true", "1.5", "[]", "[1]", "{}", "{\"x\":1}", "{\"a\":{}}"}
	for _, tpl := range []string{"{\"a\":§,\"a\":¶}", "[{\"a\":§,\"b\":0,\"a\":¶}]", "{\"o\":{\"\":§,\"\":¶}}", "{\"a\":§,\"a\":¶,\"a\":§}"} {
		for _, v1 := range kinds {
			for _, v2 := range kinds {
				in := strings.ReplaceAll(strings.ReplaceAll(tpl, "§", v1), "¶", v2)
				if err := RunCase(p, &C04Case{Mode: "bytes", Bytes: RawBytes(in)}); err != nil {
					t.Fatalf("C04 repeated-key enumeration %q: %v", in, err)
				}
			}
		}
	}
	global.CountN("enum.repeated_keys", 4*len(kinds)*len(kinds))
}

var c04Escapes = []string{`\x00`, `\x41`, `\x7f`, `\x80`, `\xff`, `\xc3\xa9`, `\xc3`, `\xZZ`, `\x4`, `\377`, `\000`, `\101`, `\303\251`, `\400`, `\8`, `\0`,
	`\U0010ffff`, `\U00110000`, `\U0000d800`, `\U0001f600`, `\U123`, `\a`, `\v`, `\e`, `\'`, `\?`, `\u00ff`, `\u0000`, `\ud800`, `\udc00x`, `\ud83d\ude00`,
	`\ud83dx`, `\ud83d\u0041`, `\u12`, `\uZZZZ`, `\u+123`, `\u 123`, `\\x41`, `\\u0041`, `\\\x41`, `\b\f\n\r\t\/\"\\`}

var c04Words = []string{"NaN", "nan", "NAN", "Inf", "inf", "+Inf", "-Inf", "Infinity", "-Infinity", "+infinity", "1e999", "-1e999", "1e-999",
	"0x10", "0X1F", "0b101", "0o17", "017", "1_000", "0x1p4", "0x1.8p1", "1e5", "1E5", ".5", "5.", "+1", "--1", "TRUE", "True", "T", "F", "t", "f",
	"FALSE", "nil", "None", "undefined", "NULL", "Null", "127", "128", "-128", "-129", "255", "256", "32767", "32768", "65535", "65536",
	"2147483647", "2147483648", "-2147483649", "4294967296", "9007199254740993", "9223372036854775807", "9223372036854775808",
	"-9223372036854775808", "-9223372036854775809", "18446744073709551616", "1.7976931348623157e308", "1.7976931348623159e308", "5e-324", "2e-324",
	"0.1", "-0", "-0.0", "0e0", "1e+0", "1e-0", "00", "-", "+", ".", "e", "E5", "0x", "0b", "1e", "1e+", "truefalse", "nulll", "tru", "nul"}
