module verifharness

go 1.23

require (
	github.com/DanielSvub/anytype v0.0.0
	pgregory.net/rapid v1.3.0
)

replace github.com/DanielSvub/anytype => /repo
