package harness

import "testing"

// Native fuzz targets. The structured ones feed the fuzzer's bytes to the same
// rapid generator and oracle as the generation tier (rapid.MakeFuzz), so
// coverage feedback steers the grammar; the *Bytes targets take raw input.

func FuzzC01(f *testing.F) { fuzzProp(f, "C01") }
func FuzzC02(f *testing.F) { fuzzProp(f, "C02") }
func FuzzC16(f *testing.F) { fuzzProp(f, "C16") }
func FuzzC03(f *testing.F) { fuzzProp(f, "C03") }

// fuzzBytes feeds raw fuzz input through a case constructor.
func fuzzBytes(f *testing.F, id string, mk func([]byte) any, seeds ...string) {
	p := registry[id]
	if p == nil {
		f.Skip("not registered")
	}
	for _, s := range seeds {
		f.Add([]byte(s))
	}
	f.Fuzz(func(t *testing.T, data []byte) {
		if err := RunCase(p, mk(data)); err != nil {
			t.Fatalf("%s: %v", id, err)
		}
	})
}

var jsonSeeds = []string{
	`[{"test":0},[0],"test",true,1,3.14,null]`,
	`{"first":{"test":0},"second":[0],"third":"test","fourth":true,"fifth":1,"sixth":3.14,"seventh":null}`,
	`["\/"]`, `["😀"]`, `{"a\/b":1}`, "[\"�\"]", `[1E5,1e+5,0e0,2.5e-3,-0,-0.0,12.50]`,
	"{\n\t\"a\" : [ 1 , 2 ] ,\r\n \"a\" : { } }", `[[[[[[]]]]]]`, `{"":{"":{"":[]}}}`, `["Aé€𝄞"]`,
	`[9223372036854775807,9223372036854775808,-9223372036854775809,1.7976931348623157e308]`,
	`["\"\\\b\f\n\r\t"]`, `[true,false,null]`, `{"k":"v","k2":[{"x":null}]}`,
}

func FuzzC03Bytes(f *testing.F) {
	fuzzBytes(f, "C03", func(b []byte) any { return &C03Case{Text: string(b)} }, jsonSeeds...)
}

var hostileSeeds = []string{
	`{"first":{}"second":2}`, `[nu ll,[]2]`, `[1,]`, `{"a"`, `"\`, `["\`, `{"a":tru}`, `[1x]`, "[\xff]", "{\"a\":\"\xc3\"}", `[[[[[[[[[[[[[[[[[[[[`,
	`{"a":1}}`, `[]]`, `{{}`, `{"a" 1}`, `{"a":}`, `{,}`, `[,]`, `{"a":1,}`, `["a" "b"]`, `{"a":[}`, `[{]`, "\n\n[\n1,\n\n}", `x[1]`, `[1]x`, `{"\ud800":1}`,
}

func FuzzC04Bytes(f *testing.F) {
	fuzzBytes(f, "C04", func(b []byte) any { return &C04Case{Mode: "bytes", Bytes: append(RawBytes{}, b...)} }, append(append([]string{}, jsonSeeds...), hostileSeeds...)...)
}
func FuzzC20(f *testing.F) { fuzzProp(f, "C20") }
