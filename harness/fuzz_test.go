package harness

import "testing"

// Native fuzz targets. The structured ones feed the fuzzer's bytes to the same
// rapid generator and oracle as the generation tier (rapid.MakeFuzz), so
// coverage feedback steers the grammar; the *Bytes targets take raw input.

func FuzzC01(f *testing.F) { fuzzProp(f, "C01") }
