package harness

import (
	"encoding/json"
	"fmt"
	"os"
	"path/filepath"
	"strings"
	"sync"
	"time"
	"unicode/utf8"

	at "github.com/DanielSvub/anytype"
	"pgregory.net/rapid"
)

// C04: parsing is total and exclusive; truncated and ill-encoded documents are rejected.

type C04Case struct {
	Mode  string   `json:"mode"`            // "bytes" or "doc"
	Bytes RawBytes `json:"bytes,omitempty"` // mode bytes: arbitrary input (Latin-1 mapped in JSON)
	Root  *V       `json:"root,omitempty"`  // mode doc: all prefixes and all UTF-8 injections of Root's text
	// mode deep: Unit repeated Depth times, optionally followed by the matching closers
	Unit   string `json:"unit,omitempty"`
	Depth  int    `json:"depth,omitempty"`
	Closed bool   `json:"closed,omitempty"`
	// mode concurrent: these inputs are parsed by several goroutines at the same time; each must
	// give the outcome it gives when parsed alone
	Many []RawBytes `json:"many,omitempty"`
}

// deepNestingLimit: nesting depths above this are never generated. The parser recurses once per
// level without a bound, and a few million levels exhaust the goroutine stack, which the Go
// runtime turns into a process abort (known finding F1 in DESIGN.md). Such a case only runs
// when it is replayed on its own (the driver probes it in a separate process).
const deepNestingLimit = 200000

var deepUnits = []string{"[", "{\"a\":", "[{\"k\":", "{\"\":["}

func deepText(c *C04Case) string {
	closers := map[string]string{"[": "]", "{\"a\":": "}", "[{\"k\":": "}]", "{\"\":[": "]}"}
	s := strings.Repeat(c.Unit, c.Depth)
	if c.Closed {
		s += "1" + strings.Repeat(closers[c.Unit], c.Depth)
	}
	return s
}

// RawBytes is a byte string that is stored in replay files as a JSON string
// with every byte mapped to the code point of the same value (Latin-1), which
// is lossless and keeps ASCII readable.
type RawBytes []byte

func (b RawBytes) MarshalJSON() ([]byte, error) {
	r := make([]rune, len(b))
	for i, c := range b {
		r[i] = rune(c)
	}
	return json.Marshal(string(r))
}

func (b *RawBytes) UnmarshalJSON(data []byte) error {
	var s string
	if err := json.Unmarshal(data, &s); err != nil {
		return err
	}
	out := make([]byte, 0, len(s))
	for _, r := range s {
		if r > 255 {
			return fmt.Errorf("RawBytes: code point %U above 255", r)
		}
		out = append(out, byte(r))
	}
	*b = out
	return nil
}

// trickyString favours characters that matter to a tokenizer.
func trickyString(t *rapid.T) string {
	parts := []string{"]", "}", "[", "{", "\"", "\\", ",", ":", "é", "€", "😀", "\\u00e9", "a", " ", "\n", "/", "\\\"", "]}", "\"]", "null", "�",
		"$HOME", "${PATH}", "${VERIF_NL}", "$1", "//", "/*", "*/", "#", "%s", "<!--"}
	n := drawInt(t, 1, 5, "tn")
	var sb strings.Builder
	for i := 0; i < n; i++ {
		sb.WriteString(parts[drawIdx(t, len(parts), "tp")])
	}
	return sb.String()
}

var soupTokens = []string{
	"{", "}", "[", "]", ",", ":", "\"", "\\", "/", "0", "1", "9", ".", "-", "+", "e", "E", "t", "r", "u", "f", "a", "l", "s", "n",
	" ", "\t", "\n", "\r", "true", "false", "null", "\"a\"", "\"a\":", "\\\"", "\\u00", "\\ud83d", "é", "😀", "\xff", "\x80", "\xc3", "\xf0\x9f",
	"{\"a\":", "[[", "]]", "{}", "[]", "1e5", "0x1", "\x00", " ", "�",
}

func genBytes(t *rapid.T) []byte {
	switch pick(t, "bk", 20, 35, 45) {
	case 0:
		return rapid.SliceOfN(rapid.Byte(), 0, 64).Draw(t, "raw")
	case 1:
		n := drawInt(t, 0, 60, "ntok")
		var sb strings.Builder
		if drawBool(t, "lead") {
			sb.WriteString([]string{"[", "{", " [", "x{", "\n\n["}[drawInt(t, 0, 4, "l")])
		}
		for i := 0; i < n; i++ {
			if oneIn(t, 12, "esc") {
				// a backslash followed by any printable character (escape handling of keys and values)
				sb.WriteByte('\\')
				sb.WriteByte(byte(drawInt(t, 0x21, 0x7e, "escc")))
				continue
			}
			sb.WriteString(soupTokens[drawIdx(t, len(soupTokens), "tok")])
		}
		return []byte(sb.String())
	}
	// structured mutation of a valid serialised document
	cfg := TreeCfg{MaxDepth: 4, MaxWidth: 4, MaxStr: 8}
	doc := []byte(RenderJSON(GenRoot(t, cfg)))
	nm := drawInt(t, 1, 3, "nmut")
	for m := 0; m < nm && len(doc) > 0; m++ {
		i := drawIdx(t, len(doc), "i")
		j := i + drawInt(t, 0, min(8, len(doc)-i), "len")
		switch drawInt(t, 0, 5, "mut") {
		case 0: // delete slice
			doc = append(append([]byte{}, doc[:i]...), doc[j:]...)
		case 1: // duplicate slice
			doc = append(append(append([]byte{}, doc[:j]...), doc[i:j]...), doc[j:]...)
		case 2: // flip a byte
			doc = append([]byte{}, doc...)
			doc[i] ^= byte(1 << uint(drawInt(t, 0, 7, "bit")))
		case 3: // transpose two bytes
			k := drawIdx(t, len(doc), "k")
			doc = append([]byte{}, doc...)
			doc[i], doc[k] = doc[k], doc[i]
		case 4: // splice another document in
			other := []byte(RenderJSON(GenRoot(t, cfg)))
			doc = append(append(append([]byte{}, doc[:i]...), other...), doc[i:]...)
		case 5: // truncate
			doc = doc[:i]
		}
	}
	if oneIn(t, 8, "fileprefix") {
		// what editors and tools put in front of a document (and a file reader might strip although the
		// string parsers do not, or the other way round): byte order marks, blank lines, a shebang
		pre := []string{"\xef\xbb\xbf", "\xef\xbb\xbf\n", "\xfe\xff", "\xff\xfe", "\n\n", " \t", "#!x\n", "\x00", "\xef\xbb", "//c\n"}[drawIdx(t, 10, "pre")]
		doc = append([]byte(pre), doc...)
	}
	return doc
}

func GenC04(t *rapid.T) *C04Case {
	if pick(t, "deep", 197, 3) == 1 {
		max := 20000
		if Thorough() {
			max = deepNestingLimit
		}
		return &C04Case{Mode: "deep", Unit: deepUnits[drawIdx(t, len(deepUnits), "unit")], Depth: drawInt(t, 1000, max, "depth"), Closed: drawBool(t, "closed")}
	}
	if oneIn(t, 40, "concurrent") {
		c := &C04Case{Mode: "concurrent"}
		for i, n := 0, drawInt(t, 2, 4, "nmany"); i < n; i++ {
			c.Many = append(c.Many, RawBytes(genBytes(t)))
		}
		return c
	}
	if oneIn(t, 25, "filedoc") {
		// documents that are (nearly) valid objects with the layouts a file reader might mangle:
		// CR LF / bare CR between tokens and raw inside strings, a UTF-8 BOM-less long first line,
		// and single lines longer than common buffer sizes (4 KiB, 64 KiB)
		cfg := TreeCfg{MaxDepth: 3, MaxWidth: 4, MaxStr: 6}
		v := GenObjectV(t, cfg, 3)
		eol := []string{"\r\n", "\n", "\r", "\r\n\r\n"}[drawIdx(t, 4, "eol")]
		if len(v.O) == 0 {
			v.O = append(v.O, Pair{"k", VStr("v")})
		}
		v.O[0].V = VStr("line1" + eol + "line2") // written raw below
		doc := RenderJSON(v)
		if oneIn(t, 4, "bom") {
			doc = []string{"\xef\xbb\xbf", "\xef\xbb\xbf ", "\xef\xbb\xbf\r\n"}[drawIdx(t, 3, "bomk")] + doc
		}
		doc = strings.ReplaceAll(doc, strings.ReplaceAll(strings.ReplaceAll(eol, "\r", "\\u000d"), "\n", "\\u000a"), eol) // raw line break inside the string
		doc = strings.ReplaceAll(doc, ",", ","+eol)
		if oneIn(t, 3, "longline") {
			n := []int{4096, 4097, 65535, 65536, 65537, 70000}[drawIdx(t, 6, "linelen")]
			if !Thorough() && n > 5000 && !oneIn(t, 4, "long64k") {
				n = 4097
			}
			pad := strings.Repeat(" ", n)
			if drawBool(t, "padinstring") {
				doc = strings.Replace(doc, "line2", "line2"+strings.Repeat("x", n), 1)
			} else {
				doc = strings.Replace(doc, "{", "{"+pad, 1)
			}
		}
		return &C04Case{Mode: "bytes", Bytes: RawBytes(doc)}
	}
	if pick(t, "mode", 80, 20) == 0 {
		return &C04Case{Mode: "bytes", Bytes: genBytes(t)}
	}
	cfg := TreeCfg{MaxDepth: 4, MaxWidth: 5, MaxStr: 6, KeyGen: func(t *rapid.T) string {
		if drawBool(t, "trickykey") {
			return trickyString(t)
		}
		return GenString(t, 4)
	}, LeafExtra: func(t *rapid.T) (V, bool) {
		if oneIn(t, 3, "tricky") {
			return VStr(trickyString(t)), true
		}
		return V{}, false
	}}
	// root with 1-5 children so documents are rarely trivial
	n := drawInt(t, 1, 5, "rootw")
	var v V
	if drawBool(t, "rootlist") {
		v = V{K: KList}
		for i := 0; i < n; i++ {
			v.L = append(v.L, GenValue(t, cfg, 3))
		}
	} else {
		v = V{K: KObject}
		seen := map[string]bool{}
		for i := 0; i < n; i++ {
			k := genKey(t, cfg)
			if seen[k] {
				continue
			}
			seen[k] = true
			v.O = append(v.O, Pair{k, GenValue(t, cfg, 3)})
		}
	}
	return &C04Case{Mode: "doc", Root: &v}
}

// ---- watchdog-wrapped parser calls ---------------------------------------

type parseOutcome struct {
	c        any // nil or container
	err      error
	panicked any
	bothNil  bool
	bothSet  bool
}

const parseWatchdog = 10 * time.Second

// guarded runs f under the termination watchdog (inputs are small and parse
// in microseconds; a trip is a >10^6x slowdown and is reported as
// non-termination). The clock cannot turn a pass into a failure otherwise.
func guarded(name string, f func() (any, error)) (parseOutcome, error) {
	done := make(chan parseOutcome, 1)
	go func() {
		var o parseOutcome
		defer func() {
			if r := recover(); r != nil {
				o.panicked = r
			}
			done <- o
		}()
		c, err := f()
		o.c, o.err = c, err
	}()
	select {
	case o := <-done:
		if o.panicked != nil {
			return o, errf("%s panicked: %v", name, o.panicked)
		}
		if o.c == nil && o.err == nil {
			return o, errf("%s returned a nil container and a nil error", name)
		}
		if o.c != nil && o.err != nil {
			return o, errf("%s returned a container together with an error (%v)", name, o.err)
		}
		return o, nil
	case <-time.After(parseWatchdog):
		return parseOutcome{}, hangf("%s did not terminate within %v", name, parseWatchdog)
	}
}

func callParseList(s string) func() (any, error) {
	return func() (any, error) {
		l, err := at.ParseList(s)
		if l == nil {
			return nil, err
		}
		return l, err
	}
}

func callParseObject(s string) func() (any, error) {
	return func() (any, error) {
		o, err := at.ParseObject(s)
		if o == nil {
			return nil, err
		}
		return o, err
	}
}

func callParseFile(path string) func() (any, error) {
	return func() (any, error) {
		o, err := at.ParseFile(path)
		if o == nil {
			return nil, err
		}
		return o, err
	}
}

func sameOutcome(name string, a, b parseOutcome) error {
	if (a.c == nil) != (b.c == nil) {
		return errf("%s: same input accepted once and rejected once (errors %v / %v)", name, a.err, b.err)
	}
	if a.c != nil {
		sa, e1 := Snap(a.c)
		sb, e2 := Snap(b.c)
		if e1 != nil || e2 != nil {
			return errf("%s: inconsistent container: %v %v", name, e1, e2)
		}
		if !EqVBits(sa, sb) {
			return errf("%s: same input parsed to different containers: %s vs %s", name, sa.Show(), sb.Show())
		}
	}
	return nil
}

var (
	tmpOnce sync.Once
	tmpDir  string
)

func scratchDir() string {
	tmpOnce.Do(func() {
		d, err := os.MkdirTemp("", "verif-c04-")
		if err != nil {
			panic(err)
		}
		tmpDir = d
	})
	return tmpDir
}

// CleanupScratch removes the scratch directory (called from TestMain).
func CleanupScratch() {
	if tmpDir != "" {
		os.RemoveAll(tmpDir)
	}
}

func checkBytes(b []byte, st *Stats) error {
	s := string(b)
	for _, root := range []byte{'[', '{'} {
		if i := strings.IndexByte(s, root); i >= 0 && len(s)-i >= 3 {
			st.MarkNonTrivial()
		}
	}
	if utf8.ValidString(s) {
		st.Count("bytes.valid_utf8")
	} else {
		st.Count("bytes.invalid_utf8")
	}
	l1, err := guarded("ParseList", callParseList(s))
	if err != nil {
		return errf("%v on input %q", err, clip(s, 200))
	}
	l2, err := guarded("ParseList", callParseList(s))
	if err != nil {
		return errf("%v on input %q (second call)", err, clip(s, 200))
	}
	if err := sameOutcome("ParseList", l1, l2); err != nil {
		return errf("%v on input %q", err, clip(s, 200))
	}
	o1, err := guarded("ParseObject", callParseObject(s))
	if err != nil {
		return errf("%v on input %q", err, clip(s, 200))
	}
	o2, err := guarded("ParseObject", callParseObject(s))
	if err != nil {
		return errf("%v on input %q (second call)", err, clip(s, 200))
	}
	if err := sameOutcome("ParseObject", o1, o2); err != nil {
		return errf("%v on input %q", err, clip(s, 200))
	}
	if l1.c != nil {
		st.Count("bytes.list_accepted")
	}
	if o1.c != nil {
		st.Count("bytes.object_accepted")
	}
	// ParseFile(path) == ParseObject(bytes)
	dir := scratchDir()
	path := filepath.Join(dir, "doc.json")
	if werr := os.WriteFile(path, b, 0o600); werr != nil {
		return &HarnessBug{fmt.Sprintf("cannot write scratch file: %v", werr)}
	}
	f1, err := guarded("ParseFile", callParseFile(path))
	if err != nil {
		return errf("%v on file content %q", err, clip(s, 200))
	}
	if err := sameOutcome("ParseFile vs ParseObject", f1, o1); err != nil {
		return errf("%v on input %q", err, clip(s, 200))
	}
	// the same unchanged file parsed again, after the first result was modified: still what ParseObject gives
	if fo, ok := f1.c.(at.Object); ok {
		fo.Set("\x00modified-by-the-harness", at.NewList(1)).Unset(sortedKeys(fo)...)
	}
	f2, err := guarded("ParseFile", callParseFile(path))
	if err != nil {
		return errf("%v on file content %q (second read)", err, clip(s, 200))
	}
	if err := sameOutcome("second ParseFile of the same file vs ParseObject", f2, o2); err != nil {
		return errf("%v on input %q", err, clip(s, 200))
	}
	// the same file reached through a symbolic link (a 'current.json' link, a mounted configuration directory)
	if len(b)%4 == 1 {
		link := filepath.Join(dir, "link.json")
		os.Remove(link)
		if os.Symlink(path, link) == nil {
			f3, err := guarded("ParseFile", callParseFile(link))
			if err != nil {
				return errf("%v on file content %q (through a symbolic link)", err, clip(s, 200))
			}
			if err := sameOutcome("ParseFile through a symbolic link vs ParseObject", f3, o2); err != nil {
				return errf("%v on input %q", err, clip(s, 200))
			}
			st.Count("bytes.file_through_symlink")
		}
	}
	// unreadable paths
	for _, bad := range []string{filepath.Join(dir, "missing-"+fmt.Sprint(len(b))+".json"), dir, ""} {
		m, err := guarded("ParseFile", callParseFile(bad))
		if err != nil {
			return errf("%v for unreadable path %q", err, bad)
		}
		if m.c != nil || m.err == nil {
			return errf("ParseFile(%q) on an unreadable path returned a container", bad)
		}
	}
	return nil
}

// the catalogue of ill-formed UTF-8 sequences (sub-check c)
var badUTF8 = []struct {
	name string
	seq  string
}{
	{"stray_continuation_80", "\x80"}, {"stray_continuation_bf", "\xbf"},
	{"truncated_2", "\xc3"}, {"truncated_3", "\xe2\x82"}, {"truncated_4", "\xf0\x9f\x98"},
	{"overlong_2a", "\xc0\xaf"}, {"overlong_2b", "\xc1\xbf"}, {"overlong_3", "\xe0\x80\xaf"}, {"overlong_4", "\xf0\x80\x80\xaf"},
	{"surrogate", "\xed\xa0\x80"}, {"above_f4", "\xf5\x80\x80\x80"}, {"beyond_10ffff", "\xf4\x90\x80\x80"}, {"fe", "\xfe"}, {"ff", "\xff"},
}

func checkDoc(root V, st *Stats) error {
	if root.K != KList && root.K != KObject {
		return nil
	}
	text := stringOf(Build(root))
	parse := func(s string) (parseOutcome, error) {
		if root.K == KList {
			return guarded("ParseList", callParseList(s))
		}
		return guarded("ParseObject", callParseObject(s))
	}
	// the whole text must be accepted (so a parser rejecting everything fails too)
	full, err := parse(text)
	if err != nil {
		return errf("%v on %q", err, clip(text, 300))
	}
	if full.c == nil {
		return errf("the complete document was rejected: %v: %q", full.err, clip(text, 300))
	}
	interesting := false
	root.Walk(func(n V, key *string, depth int) {
		check := func(s string) {
			if strings.ContainsAny(s, "[]{}\"\\") {
				interesting = true
			}
		}
		if n.K == KString {
			check(n.S)
		}
		if key != nil {
			check(*key)
		}
	})
	if root.Depth() >= 2 && interesting {
		st.MarkNonTrivial()
	}
	// (b) every proper prefix is rejected
	for k := 0; k < len(text); k++ {
		o, err := parse(text[:k])
		if err != nil {
			return errf("%v on prefix %q of %q", err, clip(text[:k], 300), clip(text, 300))
		}
		if o.c != nil {
			got, _ := Snap(o.c)
			return errf("truncated document accepted: prefix %q (cut at byte %d of %d) of %q parsed as %s", clip(text[:k], 300), k, len(text), clip(text, 300), got.Show())
		}
	}
	st.CountN("doc.prefixes", len(text))
	switch {
	case len(text) < 16:
		st.Count("doc.len<16")
	case len(text) < 64:
		st.Count("doc.len<64")
	case len(text) < 256:
		st.Count("doc.len<256")
	default:
		st.Count("doc.len>=256")
	}
	// (c) ill-formed UTF-8 strictly between the root brackets
	// documents longer than 80 bytes: every k-th position, k = ceil(len/80), offset by len mod k
	stride := (len(text) + 79) / 80
	for p, nth := 1+len(text)%stride, 0; p < len(text); p, nth = p+stride, nth+1 {
		// one decorated insertion per position: the ill-formed sequence inside something a tolerant
		// pre-pass might skip (comment syntaxes, a quoted run); ill-formed UTF-8 is rejected wherever it stands
		deco := [][2]string{{"/*", "*/"}, {"//", "\n"}, {"#", "\n"}, {"<!--", "-->"}, {"/* \"", "\" */"}, {"\ufeff", ""}}[nth%6]
		bad := badUTF8[nth%len(badUTF8)]
		if mut := text[:p] + deco[0] + bad.seq + deco[1] + text[p:]; !utf8.ValidString(mut) {
			o, err := parse(mut)
			if err != nil {
				return errf("%v on %q", err, clip(mut, 300))
			}
			if o.c != nil {
				got, _ := Snap(o.c)
				return errf("document with ill-formed UTF-8 (%s inside %q...%q at byte %d) accepted: %q parsed as %s", bad.name, deco[0], deco[1], p, clip(mut, 300), got.Show())
			}
			st.Count("doc.injection_decorated")
		}
		for _, bad := range badUTF8 {
			for sub := 0; sub < 2; sub++ {
				var mut string
				if sub == 0 {
					mut = text[:p] + bad.seq + text[p:]
				} else {
					if p >= len(text)-1 {
						continue // never replace the root's closing bracket
					}
					mut = text[:p] + bad.seq + text[p+1:]
				}
				if utf8.ValidString(mut) {
					st.Count("doc.injection_skipped_valid")
					continue
				}
				o, err := parse(mut)
				if err != nil {
					return errf("%v on %q", err, clip(mut, 300))
				}
				if o.c != nil {
					got, _ := Snap(o.c)
					return errf("document with ill-formed UTF-8 (%s at byte %d, %s) accepted: %q parsed as %s", bad.name, p, []string{"inserted", "substituted"}[sub], clip(mut, 300), got.Show())
				}
				st.Count("doc.injection." + bad.name)
			}
		}
	}
	return nil
}

// firstContact: the very first thing the first C04 case of a process does is to parse a set of documents
// holding unusual literal spellings (tRuE, NULL, 1E5, 0X1F ...), before any other document has been
// converted in this process. After later cases the same documents are parsed again: what the parser makes
// of an input must not depend on what it has parsed before (C04: the outcome is a function of the bytes).
var (
	firstContactDocs []string
	firstContact     []parseOutcome
	c04Cases         int
)

var oddLiterals = []string{"tRuE", "fALSE", "trUE", "TRue", "nULL", "Null", "NULL", "TRUE", "FALSE", "True", "False", "T", "F", "tRUE", "falsE",
	"1E5", "1e5", "0X1F", "0x1f", "0B1", "0O7", "1_0", "+1", "1.0E2", "INF", "Inf", "inf", "nan", "NaN", "NAN", "+Inf", "-inf", "1E+2", "0XfF", "nUll", "TrUe"}

func probeFirstContact(st *Stats) error {
	if firstContact == nil {
		for _, l := range oddLiterals {
			firstContactDocs = append(firstContactDocs, "["+l+"]", "{\"a\":"+l+"}", "[1,"+l+",true,false,null]")
		}
		firstContact = make([]parseOutcome, len(firstContactDocs))
		for i, d := range firstContactDocs {
			firstContact[i] = parseEither(d)
		}
		return nil
	}
	if c04Cases++; c04Cases%8 != 1 { // the first case of a process included (a replayed case is the first of its process)
		return nil
	}
	st.Count("first_contact_reprobe")
	for i, d := range firstContactDocs {
		if err := sameOutcome("parser", firstContact[i], parseEither(d)); err != nil {
			return errf("%v on input %q (the first outcome is from the start of the process, before any other document was parsed; the second from now)", err, d)
		}
	}
	return nil
}

func parseEither(d string) parseOutcome {
	call := callParseList(d)
	if d[0] == '{' {
		call = callParseObject(d)
	}
	o, err := guarded("parser", call)
	if err != nil {
		o.panicked = err
	}
	return o
}

func CheckC04(c *C04Case, st *Stats) error {
	if firstContact == nil {
		if err := probeFirstContact(st); err != nil {
			return err
		}
	}
	err := checkC04(c, st)
	if err == nil {
		err = probeFirstContact(st)
	}
	return err
}

func checkC04(c *C04Case, st *Stats) error {
	switch c.Mode {
	case "bytes":
		st.Count("mode.bytes")
		return checkBytes(c.Bytes, st)
	case "doc":
		if c.Root == nil {
			return nil
		}
		st.Count("mode.doc")
		return checkDoc(*c.Root, st)
	case "concurrent":
		st.Count("mode.concurrent")
		if len(c.Many) >= 2 {
			st.MarkNonTrivial()
		}
		type outcome struct{ l, o parseOutcome }
		alone := make([]outcome, len(c.Many))
		for i, b := range c.Many {
			var err error
			if alone[i].l, err = guarded("ParseList", callParseList(string(b))); err != nil {
				return errf("%v on input %q", err, clip(string(b), 200))
			}
			if alone[i].o, err = guarded("ParseObject", callParseObject(string(b))); err != nil {
				return errf("%v on input %q", err, clip(string(b), 200))
			}
		}
		errs := make([]error, len(c.Many))
		start := make(chan struct{})
		var wg sync.WaitGroup
		for i := range c.Many {
			wg.Add(1)
			go func(i int) {
				defer wg.Done()
				<-start
				in := string(c.Many[i])
				for rep := 0; rep < 6 && errs[i] == nil; rep++ {
					l, err := guarded("ParseList", callParseList(in))
					if err == nil {
						err = sameOutcome("ParseList (concurrently with other parses vs alone)", l, alone[i].l)
					}
					if err == nil {
						var o parseOutcome
						if o, err = guarded("ParseObject", callParseObject(in)); err == nil {
							err = sameOutcome("ParseObject (concurrently with other parses vs alone)", o, alone[i].o)
						}
					}
					if err != nil {
						errs[i] = errf("%v on input %q", err, clip(in, 200))
					}
				}
			}(i)
		}
		close(start)
		wg.Wait()
		for _, e := range errs {
			if e != nil {
				return e
			}
		}
		return nil
	case "deep":
		if _, ok := map[string]bool{"[": true, "{\"a\":": true, "[{\"k\":": true, "{\"\":[": true}[c.Unit]; !ok || c.Depth < 0 {
			return nil
		}
		if c.Depth > deepNestingLimit && os.Getenv("VERIF_REPLAY") == "" {
			st.Count("excluded.deep_nesting")
			return nil
		}
		st.Count("mode.deep")
		st.MarkNonTrivial()
		text := deepText(c)
		for _, call := range []struct {
			name string
			f    func() (any, error)
		}{{"ParseList", callParseList(text)}, {"ParseObject", callParseObject(text)}} {
			o, err := guarded(call.name, call.f)
			if err != nil {
				return errf("%v on %d nested %q (closed=%v)", err, c.Depth, c.Unit, c.Closed)
			}
			if !c.Closed && o.c != nil {
				return errf("%s accepted %d unclosed %q", call.name, c.Depth, c.Unit)
			}
		}
		return nil
	}
	return nil
}

func init() {
	Register("C04",
		"two modes. bytes: random bytes (<=64), token soup over JSON punctuation/literals/escapes/invalid bytes (<=60 tokens), and 1-3 structural mutations (delete/duplicate/flip/transpose/splice/truncate) of serialised documents; each input goes twice through ParseList and ParseObject and once through ParseFile under a termination watchdog: no panic, exactly one of (container, error), same outcome twice, ParseFile == ParseObject, unreadable paths rejected. doc: for a generated tree, EVERY proper byte prefix of String() must be rejected and the whole accepted, and every catalogue sequence of ill-formed UTF-8 (14 kinds) inserted at / substituted for every byte position strictly inside the root brackets (documents over 80 bytes: every ceil(len/80)-th position) must be rejected, also when it stands inside comment-like decoration (/* */, //, #, <!-- -->). Non-trivial = bytes input with a root bracket followed by >=2 bytes; doc with nesting >=2 and a string/key containing a bracket, quote or backslash. Distinct = distinct FNV-64a hash of the case JSON. First contact: 108 documents with unusual literal spellings (tRuE, NULL, 1E5, 0X1F, Inf ...) are parsed before anything else in the process and again after the first and every eighth later case: same outcome.",
		GenC04, CheckC04)
}
