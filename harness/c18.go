package harness

import (
	"math"
	"math/big"

	"pgregory.net/rapid"
)

// C18: numeric aggregates equal the reference folds over the numeric elements.

type NumSpec struct {
	IsInt bool   `json:"isint,omitempty"`
	I     int64  `json:"i,omitempty"`
	F     uint64 `json:"f,omitempty"`
	Other *V     `json:"other,omitempty"` // a non-numeric element (Int* family only)
}

type C18Case struct {
	Class string    `json:"class"` // "exact", "general", "fullrange", "intfamily"
	Elems []NumSpec `json:"elems"`
	Route int       `json:"route,omitempty"` // construction route (see listByRoute)
}

func GenC18(t *rapid.T) *C18Case {
	c := &C18Case{Class: []string{"exact", "general", "fullrange", "intfamily"}[pick(t, "class", 30, 30, 15, 25)], Route: drawInt(t, 0, numListRoutes-1, "route")}
	n := []int{0, 1, 1, 2, 2, 3, 4, 5, 6, 8, 10, 15, 20, 64, 65, 100}[drawIdx(t, 16, "n")]
	long := n > 20 // long lists: small magnitudes so that no product leaves the float64 range
	sign := drawInt(t, 0, 3, "sign") // 0 mixed, 1 all negative, 2 all positive, 3 mixed
	apply := func(x float64) float64 {
		switch sign {
		case 1:
			return -math.Abs(x)
		case 2:
			return math.Abs(x)
		}
		return x
	}
	for i := 0; i < n; i++ {
		isInt := drawInt(t, 0, 2, "isint") > 0
		switch c.Class {
		case "exact":
			if n > 10 {
				n = 10
			}
			if isInt {
				c.Elems = append(c.Elems, NumSpec{IsInt: true, I: int64(apply(float64(drawInt(t, -12, 12, "i"))))})
			} else {
				// dyadic fractions with <= 4 significant bits
				m := float64(drawInt(t, -15, 15, "m"))
				e := drawInt(t, -3, 3, "e")
				c.Elems = append(c.Elems, NumSpec{F: math.Float64bits(apply(math.Ldexp(m, e)))})
			}
		case "general":
			if isInt {
				var v int
				if oneIn(t, 4, "big") && !long {
					v, _ = GenInt(t)
					if v > 1<<40 || v < -(1<<40) {
						v >>= 24 // keep products of up to 20 factors far away from overflow
					}
				} else if long {
					v = drawInt(t, -9, 9, "i")
					if v == 0 && drawBool(t, "nozero") {
						v = 3
					}
				} else {
					v = drawInt(t, -100000, 100000, "i")
				}
				c.Elems = append(c.Elems, NumSpec{IsInt: true, I: int64(apply(float64(v)))})
				if int64(apply(float64(v))) != int64(float64(int64(apply(float64(v))))) {
					c.Elems[len(c.Elems)-1].I = int64(v)
				}
			} else {
				m := rapid.Float64Range(1, 2).Draw(t, "mant")
				e := drawInt(t, -20, 20, "exp")
				if long {
					e = drawInt(t, -3, 3, "exp")
				}
				x := math.Ldexp(m, e)
				if drawBool(t, "neg") {
					x = -x
				}
				c.Elems = append(c.Elems, NumSpec{F: math.Float64bits(apply(x))})
			}
		case "fullrange":
			if isInt {
				v, _ := GenInt(t)
				c.Elems = append(c.Elems, NumSpec{IsInt: true, I: int64(v)})
			} else {
				x := []float64{math.MaxFloat64, -math.MaxFloat64, 1e300, -1e300, 9.3e18, -9.3e18, 5e-324, -5e-324, 0, math.Copysign(0, -1), 1.5, -2.5, 1e19, 2e19}[drawIdx(t, 14, "x")]
				if oneIn(t, 3, "rnd") {
					x, _ = GenFloat(t)
				}
				c.Elems = append(c.Elems, NumSpec{F: math.Float64bits(apply(x))})
			}
		case "intfamily":
			switch drawInt(t, 0, 2, "what") {
			case 0:
				v, _ := GenInt(t)
				if drawBool(t, "small") {
					v = drawInt(t, -50, 50, "i")
				}
				c.Elems = append(c.Elems, NumSpec{IsInt: true, I: int64(v)})
			case 1:
				f, _ := GenFloat(t)
				c.Elems = append(c.Elems, NumSpec{F: math.Float64bits(f)})
			default:
				o := []V{VNil(), VBool(true), VStr("7"), VStr(""), VList(VInt(5)), VObj(Pair{"n", VInt(3)}), VBool(false)}[drawIdx(t, 7, "other")]
				c.Elems = append(c.Elems, NumSpec{Other: &o})
			}
		}
	}
	if len(c.Elems) > n {
		c.Elems = c.Elems[:n]
	}
	return c
}

func CheckC18(c *C18Case, st *Stats) error {
	st.Count("class." + c.Class)
	shape := V{K: KList}
	var elems []any
	var xs []float64 // numeric elements taken as float64
	var ints []int
	nonNumeric := false
	negatives, mixture, interleaved := false, false, false
	sawInt, sawFloat := false, false
	for _, e := range c.Elems {
		switch {
		case e.Other != nil:
			if c.Class != "intfamily" {
				return nil
			}
			elems = append(elems, Build(*e.Other))
			shape.L = append(shape.L, V{K: e.Other.K, B: e.Other.B, S: e.Other.S})
			nonNumeric = true
			if len(ints) > 0 {
				interleaved = true
			}
		case e.IsInt:
			elems = append(elems, int(e.I))
			shape.L = append(shape.L, VInt(int(e.I)))
			xs = append(xs, float64(int(e.I)))
			ints = append(ints, int(e.I))
			sawInt = true
			if e.I < 0 {
				negatives = true
			}
		default:
			f := math.Float64frombits(e.F)
			if f != f || math.IsInf(f, 0) {
				return nil // finite floats only
			}
			elems = append(elems, f)
			shape.L = append(shape.L, VFloat(f))
			xs = append(xs, f)
			sawFloat = true
			if f < 0 {
				negatives = true
			}
			if c.Class == "intfamily" && len(ints) > 0 {
				interleaved = true
			}
		}
	}
	mixture = sawInt && sawFloat
	l := listByRoute(shape, elems, c.Route%numListRoutes, len(elems))
	before, err := TakeIdentSnap(l)
	if err != nil {
		return err
	}
	n := len(xs)

	// ---- Int* family: any list -------------------------------------------------
	wantSum, wantProd := 0, 1
	wantMin, wantMax := 0, 0
	for i, v := range ints {
		wantSum += v
		wantProd *= v
		if i == 0 || v < wantMin {
			wantMin = v
		}
		if i == 0 || v > wantMax {
			wantMax = v
		}
	}
	if g := l.IntSum(); g != wantSum {
		return errf("IntSum = %d, expected %d on %s", g, wantSum, before.Tree.Show())
	}
	if g := l.IntProd(); g != wantProd {
		return errf("IntProd = %d, expected %d on %s", g, wantProd, before.Tree.Show())
	}
	if g := l.IntMin(); g != wantMin {
		return errf("IntMin = %d, expected %d on %s", g, wantMin, before.Tree.Show())
	}
	if g := l.IntMax(); g != wantMax {
		return errf("IntMax = %d, expected %d on %s", g, wantMax, before.Tree.Show())
	}

	// ---- float aggregates: all-numeric lists only ------------------------------
	if !nonNumeric && (c.Class != "intfamily" || len(c.Elems) == len(xs)) {
		// Min / Max are exact in every class
		mn, mx := 0.0, 0.0
		for i, x := range xs {
			if i == 0 || x < mn {
				mn = x
			}
			if i == 0 || x > mx {
				mx = x
			}
		}
		if g := l.Min(); g != mn {
			return errf("Min = %v, expected %v on %s", g, mn, before.Tree.Show())
		}
		if g := l.Max(); g != mx {
			return errf("Max = %v, expected %v on %s", g, mx, before.Tree.Show())
		}
		if c.Class == "exact" || c.Class == "general" {
			exactSum := new(big.Float).SetPrec(4000)
			exactProd := new(big.Float).SetPrec(4000).SetInt64(1)
			absSum := 0.0
			for _, x := range xs {
				bx := new(big.Float).SetPrec(4000).SetFloat64(x)
				exactSum.Add(exactSum, bx)
				exactProd.Mul(exactProd, bx)
				absSum += math.Abs(x)
			}
			u := math.Ldexp(1, -53)
			sumF, _ := exactSum.Float64()
			prodF, _ := exactProd.Float64()
			gotSum, gotProd := l.Sum(), l.Prod()
			if c.Class == "exact" {
				if gotSum != sumF {
					return errf("Sum = %v, the exact sum is %v on %s", gotSum, sumF, before.Tree.Show())
				}
				if gotProd != prodF {
					return errf("Prod = %v, the exact product is %v on %s", gotProd, prodF, before.Tree.Show())
				}
			} else {
				tolS := 1.01 * float64(n+1) * u * absSum
				if d := new(big.Float).Sub(new(big.Float).SetPrec(4000).SetFloat64(gotSum), exactSum); bigAbs(d) > tolS {
					return errf("Sum = %v, the exact sum is %v (difference beyond the rounding bound %g) on %s", gotSum, sumF, tolS, before.Tree.Show())
				}
				tolP := 1.01 * float64(n+1) * u * math.Abs(prodF)
				if d := new(big.Float).Sub(new(big.Float).SetPrec(4000).SetFloat64(gotProd), exactProd); bigAbs(d) > tolP && !(prodF == 0 && gotProd == 0) {
					return errf("Prod = %v, the exact product is %v (difference beyond the rounding bound %g) on %s", gotProd, prodF, tolP, before.Tree.Show())
				}
			}
			if n > 0 {
				exactAvg := new(big.Float).SetPrec(4000).Quo(exactSum, new(big.Float).SetPrec(4000).SetInt64(int64(n)))
				avgF, _ := exactAvg.Float64()
				gotAvg := l.Avg()
				if c.Class == "exact" {
					if gotAvg != avgF {
						return errf("Avg = %v, the exact mean is %v on %s", gotAvg, avgF, before.Tree.Show())
					}
				} else {
					tolA := 1.01*float64(n+1)*u*absSum/float64(n) + 2*u*math.Abs(avgF)
					if d := new(big.Float).Sub(new(big.Float).SetPrec(4000).SetFloat64(gotAvg), exactAvg); bigAbs(d) > tolA {
						return errf("Avg = %v, the exact mean is %v (difference beyond the rounding bound %g) on %s", gotAvg, avgF, tolA, before.Tree.Show())
					}
				}
			}
		}
		if n == 0 {
			if l.Sum() != 0 || l.Prod() != 1 {
				return errf("on an empty list Sum = %v (want 0) and Prod = %v (want 1)", l.Sum(), l.Prod())
			}
			st.Count("empty")
		}
	}
	after, err := TakeIdentSnap(l)
	if err != nil {
		return err
	}
	if !before.Same(after) {
		return errf("an aggregate modified the list: %s -> %s", before.Tree.Show(), after.Tree.Show())
	}
	qualifying := n
	if c.Class == "intfamily" {
		qualifying = len(ints)
	}
	if qualifying >= 2 && (negatives || mixture || interleaved) {
		st.MarkNonTrivial()
	}
	if negatives && n > 0 {
		allNeg := true
		for _, x := range xs {
			if x >= 0 {
				allNeg = false
			}
		}
		if allNeg {
			st.Count("all_negative")
		}
	}
	if mixture {
		st.Count("int_float_mixture")
	}
	if interleaved {
		st.Count("non_ints_interleaved")
	}
	if len(ints) == 0 && len(c.Elems) > 0 {
		st.Count("no_ints")
	}
	return nil
}

func bigAbs(d *big.Float) float64 {
	f, _ := d.Float64()
	return math.Abs(f)
}

func init() {
	Register("C18",
		"numeric lists of 0-20 (occasionally 64-100, then with small magnitudes) elements, built through drawn construction routes, in four classes: exact (small ints and dyadic fractions with <= 4 significant bits, <= 10 elements, so every partial sum/product is exactly representable), general (ints up to 2^40 and floats m*2^e with |e| <= 20, all-negative / all-positive / mixed sign, ints and floats in every order), fullrange (any int; +-MaxFloat64, +-1e300, +-9.3e18, 1e19, subnormals, +-0; Min/Max only) and intfamily (ints interleaved with floats, nil, bools, strings, lists, objects, or no ints at all). Oracle: Sum/Prod/Avg equal the math/big fold rounded once (exact class) or lie within (n+1)*2^-53*sum|x| resp. relative (n+1)*2^-53 of it (general class); Min/Max equal the float64 fold exactly in all classes; IntSum/IntProd equal the wrapping Go fold over exactly the int elements, IntMin/IntMax exact; empty: 0 / 1 / 0; list unchanged. Non-trivial = >= 2 qualifying elements with a negative value, an int/float mixture, or interleaved non-ints. Distinct = distinct FNV-64a hash of the case JSON.",
		GenC18, CheckC18)
}
