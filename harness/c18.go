package harness

import (
	"math"
	"math/big"

	at "github.com/DanielSvub/anytype"

	"pgregory.net/rapid"
)

// C18: numeric aggregates equal the reference folds over the numeric elements.

type NumSpec struct {
	IsInt bool   `json:"isint,omitempty"`
	I     int64  `json:"i,omitempty"`
	F     uint64 `json:"f,omitempty"`
	Other *V     `json:"other,omitempty"` // a non-numeric element (Int* family only)
}

type C18Case struct {
	Class string    `json:"class"` // "exact", "general", "fullrange", "intfamily", "overflow"
	Elems []NumSpec `json:"elems"`
	Route int       `json:"route,omitempty"` // construction route (see listByRoute)
	Muts  []NumMut  `json:"muts,omitempty"`  // mutations after the first evaluation; everything is evaluated again after each
}

type NumMut struct {
	Op string  `json:"op"`
	A  int     `json:"a,omitempty"`
	X  NumSpec `json:"x"`
}

func GenC18(t *rapid.T) *C18Case {
	c := &C18Case{Class: []string{"exact", "general", "fullrange", "intfamily", "overflow"}[pick(t, "class", 28, 28, 14, 23, 7)], Route: drawInt(t, 0, numListRoutes-1, "route")}
	n := []int{0, 1, 1, 2, 2, 3, 4, 5, 6, 8, 10, 15, 20, 64, 65, 100}[drawIdx(t, 16, "n")]
	if oneIn(t, 40, "huge") {
		n = []int{255, 256, 257, 258, 259, 1001}[drawIdx(t, 6, "hugen")] // block-wise / chunked folds
	}
	long := n > 20                   // long lists: small magnitudes so that no product leaves the float64 range
	sign := drawInt(t, 0, 3, "sign") // 0 mixed, 1 all negative, 2 all positive, 3 mixed
	apply := func(x float64) float64 {
		switch sign {
		case 1:
			return -math.Abs(x)
		case 2:
			return math.Abs(x)
		}
		return x
	}
	if c.Class == "exact" && n > 10 {
		n = 10
	}
	if c.Class == "overflow" {
		n = drawInt(t, 2, 8, "novf")
	}
	one := func() {
		isInt := drawInt(t, 0, 2, "isint") > 0
		switch c.Class {
		case "exact":
			if isInt {
				c.Elems = append(c.Elems, NumSpec{IsInt: true, I: int64(apply(float64(drawInt(t, -12, 12, "i"))))})
			} else {
				// dyadic fractions with <= 4 significant bits
				m := float64(drawInt(t, -15, 15, "m"))
				e := drawInt(t, -3, 3, "e")
				c.Elems = append(c.Elems, NumSpec{F: math.Float64bits(apply(math.Ldexp(m, e)))})
			}
		case "general":
			if isInt {
				var v int
				if oneIn(t, 4, "big") && !long {
					v, _ = GenInt(t)
					if v > 1<<40 || v < -(1<<40) {
						v >>= 24 // keep products of up to 20 factors far away from overflow
					}
				} else if long {
					v = drawInt(t, -9, 9, "i")
					if v == 0 && drawBool(t, "nozero") {
						v = 3
					}
				} else {
					v = drawInt(t, -100000, 100000, "i")
				}
				c.Elems = append(c.Elems, NumSpec{IsInt: true, I: int64(apply(float64(v)))})
				if int64(apply(float64(v))) != int64(float64(int64(apply(float64(v))))) {
					c.Elems[len(c.Elems)-1].I = int64(v)
				}
			} else {
				m := rapid.Float64Range(1, 2).Draw(t, "mant")
				e := drawInt(t, -20, 20, "exp")
				if long {
					e = drawInt(t, -3, 3, "exp")
				}
				x := math.Ldexp(m, e)
				if drawBool(t, "neg") {
					x = -x
				}
				c.Elems = append(c.Elems, NumSpec{F: math.Float64bits(apply(x))})
			}
		case "overflow":
			// factors of magnitude >= 1 only (no partial product can underflow in any evaluation order),
			// several of them huge, so that the product leaves the float64 range part-way through the list
			if isInt && drawBool(t, "smallfactor") {
				v := drawInt(t, 1, 1000, "i")
				if drawBool(t, "neg") {
					v = -v
				}
				c.Elems = append(c.Elems, NumSpec{IsInt: true, I: int64(v)})
			} else {
				x := []float64{1e200, 1e300, math.MaxFloat64, 1e154, 1e155, 2, 1.5, 1, 1e100, 3e307}[drawIdx(t, 10, "big")]
				if drawBool(t, "neg") {
					x = -x
				}
				c.Elems = append(c.Elems, NumSpec{F: math.Float64bits(x)})
			}
		case "fullrange":
			if isInt {
				v, _ := GenInt(t)
				c.Elems = append(c.Elems, NumSpec{IsInt: true, I: int64(v)})
			} else {
				x := []float64{math.MaxFloat64, -math.MaxFloat64, 1e300, -1e300, 9.3e18, -9.3e18, 5e-324, -5e-324, 0, math.Copysign(0, -1), 1.5, -2.5, 1e19, 2e19}[drawIdx(t, 14, "x")]
				if oneIn(t, 3, "rnd") {
					x, _ = GenFloat(t)
				}
				c.Elems = append(c.Elems, NumSpec{F: math.Float64bits(apply(x))})
			}
		case "intfamily":
			switch drawInt(t, 0, 2, "what") {
			case 0:
				v, _ := GenInt(t)
				if drawBool(t, "small") {
					v = drawInt(t, -50, 50, "i")
				}
				c.Elems = append(c.Elems, NumSpec{IsInt: true, I: int64(v)})
			case 1:
				f, _ := GenFloat(t)
				c.Elems = append(c.Elems, NumSpec{F: math.Float64bits(f)})
			default:
				o := []V{VNil(), VBool(true), VStr("7"), VStr(""), VList(VInt(5)), VObj(Pair{"n", VInt(3)}), VBool(false)}[drawIdx(t, 7, "other")]
				c.Elems = append(c.Elems, NumSpec{Other: &o})
			}
		}
	}
	for i := 0; i < n; i++ {
		one()
	}
	// later mutations with values of the same class; the aggregates are evaluated again after each
	if drawBool(t, "mutate") {
		ops := []string{"add", "insert", "replace", "delete", "pop", "reverse", "insert", "replace"}
		for i, k := 0, drawInt(t, 1, 3, "nmuts"); i < k; i++ {
			before := len(c.Elems)
			one()
			x := c.Elems[before]
			c.Elems = c.Elems[:before]
			c.Muts = append(c.Muts, NumMut{Op: ops[drawIdx(t, len(ops), "mop")], A: genRaw(t), X: x})
		}
	}
	return c
}

func numValue(e NumSpec) any {
	switch {
	case e.Other != nil:
		return Build(*e.Other)
	case e.IsInt:
		return int(e.I)
	}
	return math.Float64frombits(e.F)
}

func CheckC18(c *C18Case, st *Stats) error {
	st.Count("class." + c.Class)
	l, err := verifyAggregates(c, c.Elems, nil, st)
	if err != nil || l == nil {
		return err
	}
	model := append([]NumSpec{}, c.Elems...)
	for i, m := range c.Muts {
		n := len(model)
		if m.X.Other != nil && c.Class != "intfamily" {
			continue
		}
		if !m.X.IsInt && m.X.Other == nil {
			if f := math.Float64frombits(m.X.F); f != f || math.IsInf(f, 0) {
				continue
			}
		}
		switch m.Op {
		case "add":
			l.Add(numValue(m.X))
			model = append(model, m.X)
		case "insert":
			at := m.A % (n + 1)
			if n > 1 && m.A%3 != 0 {
				at = m.A % n // strictly inside (not the append position)
			}
			l.Insert(at, numValue(m.X))
			model = append(model, NumSpec{})
			copy(model[at+1:], model[at:])
			model[at] = m.X
		case "replace":
			if n == 0 {
				continue
			}
			l.Replace(m.A%n, numValue(m.X))
			model[m.A%n] = m.X
		case "delete":
			if n == 0 {
				continue
			}
			l.Delete(m.A % n)
			model = append(model[:m.A%n:m.A%n], model[m.A%n+1:]...)
		case "pop":
			if n == 0 {
				continue
			}
			l.Pop()
			model = model[:n-1]
		case "reverse":
			l.Reverse()
			for a, b := 0, len(model)-1; a < b; a, b = a+1, b-1 {
				model[a], model[b] = model[b], model[a]
			}
		default:
			continue
		}
		st.Count("reevaluated_after." + m.Op)
		if _, err := verifyAggregates(c, model, l, nil); err != nil {
			return errf("after mutation %d (%s): %v", i, m.Op, err)
		}
	}
	return nil
}

// verifyAggregates evaluates all nine aggregates on the list holding elemsSpec (built here when l is nil).
func verifyAggregates(c *C18Case, elemsSpec []NumSpec, l at.List, st *Stats) (at.List, error) {
	if st == nil {
		st = NewStats() // statistics of re-evaluations are not recorded
	}
	shape := V{K: KList}
	var elems []any
	var xs []float64 // numeric elements taken as float64
	var ints []int
	nonNumeric := false
	negatives, mixture, interleaved := false, false, false
	sawInt, sawFloat := false, false
	for _, e := range elemsSpec {
		switch {
		case e.Other != nil:
			if c.Class != "intfamily" {
				return nil, nil
			}
			elems = append(elems, Build(*e.Other))
			shape.L = append(shape.L, V{K: e.Other.K, B: e.Other.B, S: e.Other.S})
			nonNumeric = true
			if len(ints) > 0 {
				interleaved = true
			}
		case e.IsInt:
			elems = append(elems, int(e.I))
			shape.L = append(shape.L, VInt(int(e.I)))
			xs = append(xs, float64(int(e.I)))
			ints = append(ints, int(e.I))
			sawInt = true
			if e.I < 0 {
				negatives = true
			}
		default:
			f := math.Float64frombits(e.F)
			if f != f || math.IsInf(f, 0) {
				return nil, nil // finite floats only
			}
			elems = append(elems, f)
			shape.L = append(shape.L, VFloat(f))
			xs = append(xs, f)
			sawFloat = true
			if f < 0 {
				negatives = true
			}
			if c.Class == "intfamily" && len(ints) > 0 {
				interleaved = true
			}
		}
	}
	mixture = sawInt && sawFloat
	if l == nil {
		l = listByRoute(shape, elems, c.Route%numListRoutes, len(elems))
	}
	before, err := TakeIdentSnap(l)
	if err != nil {
		return nil, err
	}
	n := len(xs)

	// ---- Int* family: any list -------------------------------------------------
	wantSum, wantProd := 0, 1
	wantMin, wantMax := 0, 0
	for i, v := range ints {
		wantSum += v
		wantProd *= v
		if i == 0 || v < wantMin {
			wantMin = v
		}
		if i == 0 || v > wantMax {
			wantMax = v
		}
	}
	if g := l.IntSum(); g != wantSum {
		return nil, errf("IntSum = %d, expected %d on %s", g, wantSum, before.Tree.Show())
	}
	if g := l.IntProd(); g != wantProd {
		return nil, errf("IntProd = %d, expected %d on %s", g, wantProd, before.Tree.Show())
	}
	if g := l.IntMin(); g != wantMin {
		return nil, errf("IntMin = %d, expected %d on %s", g, wantMin, before.Tree.Show())
	}
	if g := l.IntMax(); g != wantMax {
		return nil, errf("IntMax = %d, expected %d on %s", g, wantMax, before.Tree.Show())
	}

	// ---- float aggregates: all-numeric lists only ------------------------------
	if !nonNumeric && (c.Class != "intfamily" || len(elemsSpec) == len(xs)) {
		// Min / Max are exact in every class
		mn, mx := 0.0, 0.0
		for i, x := range xs {
			if i == 0 || x < mn {
				mn = x
			}
			if i == 0 || x > mx {
				mx = x
			}
		}
		if g := l.Min(); g != mn {
			return nil, errf("Min = %v, expected %v on %s", g, mn, before.Tree.Show())
		}
		if g := l.Max(); g != mx {
			return nil, errf("Max = %v, expected %v on %s", g, mx, before.Tree.Show())
		}
		if c.Class == "exact" || c.Class == "general" {
			exactSum := new(big.Float).SetPrec(4000)
			exactProd := new(big.Float).SetPrec(4000).SetInt64(1)
			absSum := 0.0
			for _, x := range xs {
				bx := new(big.Float).SetPrec(4000).SetFloat64(x)
				exactSum.Add(exactSum, bx)
				exactProd.Mul(exactProd, bx)
				absSum += math.Abs(x)
			}
			u := math.Ldexp(1, -53)
			sumF, _ := exactSum.Float64()
			prodF, _ := exactProd.Float64()
			gotSum, gotProd := l.Sum(), l.Prod()
			if c.Class == "exact" {
				// exact class: every evaluation order gives the same float64, the sign of a zero result included
				if math.Float64bits(gotSum) != math.Float64bits(sumF) {
					return nil, errf("Sum = %v, the exact sum is %v on %s", gotSum, sumF, before.Tree.Show())
				}
				if math.Float64bits(gotProd) != math.Float64bits(prodF) {
					return nil, errf("Prod = %v, the exact product is %v on %s", gotProd, prodF, before.Tree.Show())
				}
			} else {
				tolS := 1.01 * float64(n+1) * u * absSum
				if d := new(big.Float).Sub(new(big.Float).SetPrec(4000).SetFloat64(gotSum), exactSum); bigAbs(d) > tolS {
					return nil, errf("Sum = %v, the exact sum is %v (difference beyond the rounding bound %g) on %s", gotSum, sumF, tolS, before.Tree.Show())
				}
				tolP := 1.01 * float64(n+1) * u * math.Abs(prodF)
				if d := new(big.Float).Sub(new(big.Float).SetPrec(4000).SetFloat64(gotProd), exactProd); bigAbs(d) > tolP && !(prodF == 0 && gotProd == 0) {
					return nil, errf("Prod = %v, the exact product is %v (difference beyond the rounding bound %g) on %s", gotProd, prodF, tolP, before.Tree.Show())
				}
			}
			if n > 0 {
				exactAvg := new(big.Float).SetPrec(4000).Quo(exactSum, new(big.Float).SetPrec(4000).SetInt64(int64(n)))
				avgF, _ := exactAvg.Float64()
				gotAvg := l.Avg()
				if c.Class == "exact" {
					if gotAvg != avgF {
						return nil, errf("Avg = %v, the exact mean is %v on %s", gotAvg, avgF, before.Tree.Show())
					}
				} else {
					tolA := 1.01*float64(n+1)*u*absSum/float64(n) + 2*u*math.Abs(avgF)
					if d := new(big.Float).Sub(new(big.Float).SetPrec(4000).SetFloat64(gotAvg), exactAvg); bigAbs(d) > tolA {
						return nil, errf("Avg = %v, the exact mean is %v (difference beyond the rounding bound %g) on %s", gotAvg, avgF, tolA, before.Tree.Show())
					}
				}
			}
		}
		if c.Class == "overflow" && n > 0 {
			// every factor has magnitude >= 1, so in any evaluation order the partial products grow
			// monotonically: a product far beyond the float64 range is an infinity whose sign is the
			// parity of the negative factors; one comfortably inside the range obeys the rounding bound
			exactProd := new(big.Float).SetPrec(4000).SetInt64(1)
			for _, x := range xs {
				exactProd.Mul(exactProd, new(big.Float).SetPrec(4000).SetFloat64(x))
			}
			gotProd := l.Prod()
			switch exp := exactProd.MantExp(nil); {
			case exp > 1030:
				if want := math.Inf(exactProd.Sign()); gotProd != want {
					return nil, errf("Prod = %v, the product of the elements is beyond the float64 range with sign %+d (expected %v) on %s", gotProd, exactProd.Sign(), want, before.Tree.Show())
				}
				st.Count("prod_overflow")
			case exp < 1020:
				prodF, _ := exactProd.Float64()
				tolP := 1.01 * float64(n+1) * math.Ldexp(1, -53) * math.Abs(prodF)
				if d := new(big.Float).Sub(new(big.Float).SetPrec(4000).SetFloat64(gotProd), exactProd); math.IsInf(gotProd, 0) || gotProd != gotProd || bigAbs(d) > tolP {
					return nil, errf("Prod = %v, the exact product is %v on %s", gotProd, prodF, before.Tree.Show())
				}
			}
		}
		if n == 0 {
			if l.Sum() != 0 || l.Prod() != 1 {
				return nil, errf("on an empty list Sum = %v (want 0) and Prod = %v (want 1)", l.Sum(), l.Prod())
			}
			st.Count("empty")
		}
	}
	after, err := TakeIdentSnap(l)
	if err != nil {
		return nil, err
	}
	if !before.Same(after) {
		return nil, errf("an aggregate modified the list: %s -> %s", before.Tree.Show(), after.Tree.Show())
	}
	qualifying := n
	if c.Class == "intfamily" {
		qualifying = len(ints)
	}
	if qualifying >= 2 && (negatives || mixture || interleaved) {
		st.MarkNonTrivial()
	}
	if negatives && n > 0 {
		allNeg := true
		for _, x := range xs {
			if x >= 0 {
				allNeg = false
			}
		}
		if allNeg {
			st.Count("all_negative")
		}
	}
	if mixture {
		st.Count("int_float_mixture")
	}
	if interleaved {
		st.Count("non_ints_interleaved")
	}
	if len(ints) == 0 && len(elemsSpec) > 0 {
		st.Count("no_ints")
	}
	return l, nil
}

func bigAbs(d *big.Float) float64 {
	f, _ := d.Float64()
	return math.Abs(f)
}

func init() {
	Register("C18",
		"numeric lists of 0-20 (occasionally 64-100, then with small magnitudes) elements, built through drawn construction routes, in four classes: exact (small ints and dyadic fractions with <= 4 significant bits, <= 10 elements, so every partial sum/product is exactly representable), general (ints up to 2^40 and floats m*2^e with |e| <= 20, all-negative / all-positive / mixed sign, ints and floats in every order), fullrange (any int; +-MaxFloat64, +-1e300, +-9.3e18, 1e19, subnormals, +-0; Min/Max only) and intfamily (ints interleaved with floats, nil, bools, strings, lists, objects, or no ints at all). and overflow (2-8 factors of magnitude >= 1, several near 1e154-1e308: Prod must be the infinity whose sign is the parity of the negative factors when the exact product exceeds 2^1030, and obey the rounding bound when it stays below 2^1020). Oracle: Sum/Prod/Avg equal the math/big fold rounded once (exact class) or lie within (n+1)*2^-53*sum|x| resp. relative (n+1)*2^-53 of it (general class); Min/Max equal the float64 fold exactly in all classes; IntSum/IntProd equal the wrapping Go fold over exactly the int elements, IntMin/IntMax exact; empty: 0 / 1 / 0; list unchanged. Non-trivial = >= 2 qualifying elements with a negative value, an int/float mixture, or interleaved non-ints. Distinct = distinct FNV-64a hash of the case JSON.",
		GenC18, CheckC18)
}
