package harness

import "pgregory.net/rapid"

// C05: List behaves as an ordered sequence with reference semantics under any program.
// C06: Object behaves as a string-keyed map with reference semantics under any program.
// Both run the same interpreter (program.go) over the shared heap model (heap.go);
// they differ in the operation mix and in the non-triviality rule.

func GenC05(t *rapid.T) *ProgramCase { return genProgram(t, 88) }

func CheckC05(c *ProgramCase, st *Stats) error {
	m, err := runProgram(c, st)
	if (m.derived && m.mutAfterDerived) || m.expectedPanics > 0 || m.aliasWrites > 0 {
		st.MarkNonTrivial()
	}
	st.CountN("alias_writes", m.aliasWrites)
	switch {
	case m.maxLen >= 1024:
		st.Count("maxlen>=1024")
	case m.maxLen >= 256:
		st.Count("maxlen>=256")
	case m.maxLen >= 65:
		st.Count("maxlen>=65")
	case m.maxLen >= 33:
		st.Count("maxlen>=33")
	case m.maxLen >= 17:
		st.Count("maxlen>=17")
	case m.maxLen >= 9:
		st.Count("maxlen>=9")
	default:
		st.Count("maxlen<9")
	}
	return err
}

func GenC06(t *rapid.T) *ProgramCase { return genProgram(t, 15) }

func CheckC06(c *ProgramCase, st *Stats) error {
	m, err := runProgram(c, st)
	if m.mergeOverlap > 0 || m.repeatedKeySet > 0 || m.expectedPanics > 0 || m.aliasWrites > 0 {
		st.MarkNonTrivial()
	}
	st.CountN("alias_writes", m.aliasWrites)
	return err
}

func init() {
	Register("C05",
		"programs-as-data: programs whose length is drawn from a length class (1-7 / 8-25 / 26-60 operations; thorough up to 200; about 26 on average, so lists cross the capacity boundaries 1-2-4-...-64 repeatedly) with raw integer arguments interpreted against a reference heap of sequences (scalars by value, containers by reference, acyclicity guard) and against the library: NewList/NewListOf/NewListFrom (7 slice flavours), Add, Insert(i in -2..n+2), Replace/Delete/Get(i in -2..n+1), multi-index Delete (distinct valid), Pop, Clear, Reverse, Sort (only inside C17's domain), SubList(start in -1..n+2, end in -n-2..n+2), Concat (any live list, itself included), typed-getter matrix, Contains/IndexOf, plus object operations on nested objects; compound steps: sortrun, stack (Pop then Add), bulk (63-4099 cheap scalars added at once, so that the rest of the program works on a list far beyond block sizes; about one program in twelve) ; SubList is a suffix (end 0 or n) or a prefix in three steps of five; one mutating step in four goes to the receiver or the result of the most recent SubList/Concat. After every step IndexOf/Contains of the first, middle and last element of every list must agree with a scan of the model. After EVERY step every container ever created is compared (Count, Empty, TypeOf, Get with identity for containers, Slice; panics exactly when the model says the argument is outside the domain). Non-trivial = a derivation (SubList/Concat/NewListFrom) followed by a mutation, or a write to a container that is referenced from another container, or at least one expected panic. Distinct = distinct FNV-64a hash of the program JSON.",
		GenC05, CheckC05)
	Register("C06",
		"programs-as-data as C05 with an object-heavy mix: NewObject/NewObjectFrom (7 map flavours), Set (0-4 pairs, repeated key in one call, odd argument count, non-string key at a drawn position), Unset (present/missing/several), Clear, Merge (any live object, itself included), bigset (65-300 fields at once), unsetmany (all but 0-7 fields of a live object removed by one call, key by key, or after overwriting with nil), Pluck (present/missing/repeated keys), Get/typed-getter/TypeOf/KeyExists matrix for a present and an absent key, Contains/KeyOf; keys from a pool with the empty key, '.', '#', quotes, newline, non-ASCII, U+FFFD, long; in one program of five every key and string value is re-encoded to bytes that are not valid UTF-8 (distinct ill-formed keys are distinct fields). After EVERY step every container is compared (Count, Empty, Keys as set, Values as multiset, Dict, KeyExists, TypeOf, Get with identity; Contains/KeyOf of the values under the first and last key). Non-trivial = a Merge with overlapping keys, a Set with a repeated key, an expected panic, or a write to a container referenced from another container. Distinct = distinct FNV-64a hash of the program JSON.",
		GenC06, CheckC06)
}
