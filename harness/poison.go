package harness

import (
	"math"

	at "github.com/DanielSvub/anytype"
)

// failedCallsFirst runs, before every case of every property, a fixed set of library calls that FAIL (a
// panic the caller recovers, an empty result, a parse error) on containers of their own. Every property
// quantifies over what the process did before: whatever a failed call leaves behind in state that
// outlives it (pooled buffers, package-level scratch space, depth counters, memo tables) must not
// reach the calls the case makes afterwards (run before every fourth case, the first of a process included). The containers are throw-away or never modified; on the
// pinned library the calls have no effect at all, so the checks see exactly what they saw before.
var poisonBig at.List
var poisonCount int

func failedCallsFirst(st *Stats) {
	// every fourth case of a process, the first one included (a replayed case is the first of its process)
	if poisonCount++; poisonCount%4 != 1 {
		return
	}
	st.Count("failed_calls_first")
	// nothing in here may ever fail a case: a library that refuses one of the set-up values ends the
	// sequence at that point, no more
	catch(func() { failedCalls() })
}

func failedCalls() {
	if poisonBig == nil {
		poisonBig = at.NewList()
		for i := 0; i < 320; i++ {
			poisonBig.Add(i)
		}
	}
	boom := func(n *int, at int) {
		*n++
		if *n == at {
			panic(c09Abort{})
		}
	}
	mixed := at.NewList(4, -2.5, 1e3, "n/a", 7)
	for _, l := range []at.List{mixed, poisonBig} {
		l := l
		stopAt := 3
		if l == poisonBig {
			stopAt = 301
		}
		var n int
		// callbacks that panic after some results were produced
		n = 0
		catch(func() { l.Map(func(i int, x any) any { boom(&n, stopAt); return x }) })
		n = 0
		catch(func() { l.MapValues(func(x any) any { boom(&n, stopAt); return x }) })
		n = 0
		catch(func() { l.MapInts(func(x int) any { boom(&n, 2); return x }) })
		n = 0
		catch(func() { l.Filter(func(x any) bool { boom(&n, stopAt); return true }) })
		n = 0
		catch(func() { l.ForEach(func(i int, x any) { boom(&n, stopAt) }) })
		n = 0
		catch(func() { l.Reduce(0, func(a, x any) any { boom(&n, stopAt); return a }) })
		// a result of an unsupported type after supported ones
		n = 0
		catch(func() {
			l.Map(func(i int, x any) any {
				if n++; n == stopAt {
					return struct{ A int }{1}
				}
				return x
			})
		})
	}
	// folds that meet a non-numeric element after numeric ones
	catch(func() { mixed.Min() })
	catch(func() { mixed.Max() })
	catch(func() { mixed.Sum() })
	catch(func() { mixed.Prod() })
	catch(func() { mixed.Avg() })
	// conversions that are refused below the top level, Sort outside its domain, wrong-kind getters
	catch(func() { at.NewListFrom([]any{1, []any{2, map[string]any{"k": []any{struct{}{}}}}}) })
	catch(func() { at.NewObjectFrom(map[string]any{"a": map[string]any{"b": make(chan int)}}) })
	catch(func() { at.NewList(true, 3, 2, 1).Sort() })
	catch(func() { at.NewList().Sort() })
	catch(func() { mixed.GetString(0) })
	catch(func() { mixed.Get(99) })
	catch(func() { mixed.SubList(3, 1) })
	catch(func() { at.NewObject("a", 1).Pluck("missing") })
	catch(func() { at.NewObject("a", 1).Set("k") })
	// tree-form writes and reads that fail after the first link
	catch(func() { at.NewList(at.NewObject("a", 1)).SetTF("#0.b#x", 1) })
	catch(func() { at.NewObject("a", at.NewList(1)).SetTF(".a#0#x", 1) })
	catch(func() { at.NewObject("a", at.NewList(1)).GetTF(".a#5.k") })
	catch(func() { at.NewObject("a", 1).UnsetTF(".b.c") })
	// parses that fail in the middle of a token
	at.ParseList(`[1,2,"ab`)
	at.ParseList(`[12345`)
	at.ParseObject(`{"key":tru`)
	at.ParseObject(`{"k`)
	at.ParseList("[\"\xff\"]")
	// text of values that have no JSON spelling
	nonFinite := at.NewList(1, math.NaN(), at.NewObject("k", math.Inf(-1)))
	catch(func() { _ = nonFinite.FormatString(2) })
	catch(func() { _ = nonFinite.GetObject(2).FormatString(2) })
	catch(func() { _ = nonFinite.String() })
	catch(func() { _ = at.NewList(1).FormatString(11) })
}
