package harness

import (
	"fmt"
	"math"
	"math/big"
	"strconv"
	"strings"
	"unicode/utf8"

	"pgregory.net/rapid"
)

// C03: the parser reads every valid JSON document exactly as a reference decoder does.

type C03Case struct {
	Text string `json:"text"`
	// Expect is the tree the generator knows by construction. When nil (raw
	// byte fuzzing, hand-written corpus) it is derived with the strict scanner
	// and the case is skipped unless the text is in the property's domain.
	Expect *V `json:"expect,omitempty"`
	// Records > 0: Text is only the record; the document is a flat array (or, for RecordsInObject, an
	// object with numbered keys) of Records copies of it - thousands of small containers at one level
	Records         int  `json:"records,omitempty"`
	RecordsInObject bool `json:"recordsinobject,omitempty"`
	// Poison > 0: both parsers first get the document cut after Poison mod len bytes (see C01Case)
	Poison int `json:"poison,omitempty"`
}

var c03Records = []string{`{"a":1,"b":"s"}`, `{"k":[1,"x"]}`, `["a",{"z":"y"}]`, `{"a":{"b":"c"}}`, `[[],{},"s"]`, `{"n":null,"t":true,"s":""}`, `[1.5e3,"\u0041"]`, `{"":""}`,
	`[1.5e3,"\u0041",[1,2,3,4,5,6,7,8,9,10,11,12,13,14,15,16,17,18,19,20],{"k":[10,20,30,40,50,60,70,80,90,100,110,120,130,140,150]}]`,
	`{"rows":[["alpha","beta","gamma","delta","epsilon","zeta","eta","theta"],["alpha","beta","gamma","delta","epsilon","zeta","eta","theta"]]}`}

// docGen renders a JSON document while drawing every degree of freedom the
// grammar has, and records which features were used.
type docGen struct {
	t     *rapid.T
	sb    strings.Builder
	feats map[string]bool
	maxW  int
}

func (g *docGen) feat(f string) { g.feats[f] = true }

var wsChars = []byte{' ', '\t', '\n', '\r'}

func (g *docGen) ws() {
	switch pick(g.t, "ws", 70, 27, 3) {
	case 0:
		return
	case 1:
		n := drawInt(g.t, 1, 3, "wsn")
		for i := 0; i < n; i++ {
			g.sb.WriteByte(wsChars[drawInt(g.t, 0, 3, "wsc")])
		}
	case 2:
		n := drawInt(g.t, 20, 50, "wsn")
		c := wsChars[drawInt(g.t, 0, 3, "wsc")]
		for i := 0; i < n; i++ {
			g.sb.WriteByte(c)
		}
	}
	g.feat("whitespace")
}

func hex4(t *rapid.T, r rune) string {
	s := fmt.Sprintf("%04x", r)
	switch drawInt(t, 0, 2, "hexcase") {
	case 1:
		s = strings.ToUpper(s)
	case 2:
		b := []byte(s)
		for i := range b {
			if drawBool(t, "up") {
				b[i] = strings.ToUpper(string(b[i]))[0]
			}
		}
		s = string(b)
	}
	return `\u` + s
}

var shortEscapes = map[rune]string{'"': `\"`, '\\': `\\`, '/': `\/`, '\b': `\b`, '\f': `\f`, '\n': `\n`, '\r': `\r`, '\t': `\t`}

// str writes a JSON string literal for s choosing a spelling per character.
func (g *docGen) str(s string) {
	g.sb.WriteByte('"')
	for _, r := range s {
		mustEscape := r == '"' || r == '\\' || r < 0x20
		short, hasShort := shortEscapes[r]
		// choices: 0 raw, 1 short escape, 2 \u escape (pair for astral)
		var choice int
		switch {
		case mustEscape && hasShort:
			choice = 1 + pick(g.t, "esc", 70, 30)
		case mustEscape:
			choice = 2
		case hasShort: // '/'
			choice = pick(g.t, "esc", 50, 35, 15)
		default:
			choice = pick(g.t, "esc", 80, 0, 20)
		}
		switch choice {
		case 0:
			g.sb.WriteRune(r)
			if r >= 0x80 {
				g.feat("raw_nonascii")
			}
			if r > 0xffff {
				g.feat("raw_astral")
			}
		case 1:
			g.sb.WriteString(short)
			switch r {
			case '"', '\\', '\n':
				g.feat("escape_common")
			case '/':
				g.feat("escape_solidus")
			default:
				g.feat("escape_short_other")
			}
		case 2:
			if r > 0xffff {
				r -= 0x10000
				g.sb.WriteString(hex4(g.t, 0xd800+(r>>10)))
				g.sb.WriteString(hex4(g.t, 0xdc00+(r&0x3ff)))
				g.feat("escape_surrogate_pair")
			} else {
				g.sb.WriteString(hex4(g.t, r))
				g.feat("escape_u")
			}
		}
	}
	g.sb.WriteByte('"')
}

// number writes a number literal and returns the expected value.
func (g *docGen) number() V {
	var raw string
	switch pick(g.t, "numk", 30, 4, 8, 18, 22, 10, 8, 5) {
	case 7:
		// the exact decimal expansion of the midpoint between two adjacent floats (50-770 digits), nudged up
		// or down in its last place or left as it is: rounds correctly only if no digit is thrown away
		f, _ := GenFloat(g.t)
		if f == 0 || math.IsInf(f, 0) || f != f || math.Abs(f) > 1e300 || math.Abs(f) < 1e-290 {
			f = 1
		}
		up := math.Nextafter(f, math.Inf(1))
		mid := new(big.Float).SetPrec(2000).SetFloat64(f)
		mid.Add(mid, new(big.Float).SetPrec(2000).SetFloat64(up))
		mid.Quo(mid, big.NewFloat(2))
		raw = mid.Text('f', 1100)
		raw = strings.TrimRight(raw, "0")
		if strings.HasSuffix(raw, ".") {
			raw += "0"
		}
		switch drawInt(g.t, 0, 2, "nudge") {
		case 1:
			raw += "0000000001" // just above the midpoint
		case 2:
			if last := raw[len(raw)-1]; last > '0' && last <= '9' && strings.Contains(raw, ".") {
				raw = raw[:len(raw)-1] + string(last-1) + "9999999999" // just below
			}
		}
		g.feat("num_midpoint")
	case 0:
		i, _ := GenInt(g.t)
		raw = strconv.Itoa(i)
	case 1:
		raw = "-0"
		g.feat("num_negzero_int")
	case 2:
		raw = []string{"9223372036854775808", "-9223372036854775809", "123456789012345678901234567890", "18446744073709551616",
			"9223372036854775807", "-9223372036854775808", "99999999999999999999", "1" + strings.Repeat("0", 40)}[drawInt(g.t, 0, 7, "big")]
		g.feat("num_bigint")
	case 3: // fraction
		ip := strconv.Itoa(drawInt(g.t, -1000, 1000, "ip"))
		if oneIn(g.t, 6, "z") {
			ip = []string{"0", "-0"}[drawInt(g.t, 0, 1, "z0")]
		}
		nd := drawInt(g.t, 1, 6, "nd")
		fr := make([]byte, nd)
		for i := range fr {
			fr[i] = byte('0' + drawInt(g.t, 0, 9, "d"))
		}
		if drawBool(g.t, "trail0") {
			fr = append(fr, '0')
			if drawBool(g.t, "allzero") {
				for i := range fr {
					fr[i] = '0'
				}
			}
		}
		raw = ip + "." + string(fr)
		g.feat("num_fraction")
	case 4: // exponent
		man := strconv.Itoa(drawInt(g.t, -999, 999, "man"))
		if drawBool(g.t, "mfrac") {
			man += "." + strconv.Itoa(drawInt(g.t, 0, 99999, "mf"))
		}
		e := []string{"e", "E"}[drawInt(g.t, 0, 1, "e")]
		sign := []string{"", "+", "-"}[drawInt(g.t, 0, 2, "es")]
		exp := strconv.Itoa(drawInt(g.t, 0, 290, "exp"))
		if oneIn(g.t, 5, "lead0") {
			exp = "0" + exp
		}
		if sign == "-" && oneIn(g.t, 10, "deep") {
			exp = strconv.Itoa(drawInt(g.t, 300, 400, "exp")) // underflow towards 0 / subnormals is in range
		}
		raw = man + e + sign + exp
		g.feat("num_exponent")
	case 5: // 17 significant digits
		f, _ := GenFloat(g.t)
		raw = strconv.FormatFloat(f, byte([]rune{'e', 'g', 'E'}[drawInt(g.t, 0, 2, "fmt")]), 16, 64)
		if strings.ContainsAny(raw, "IN") {
			raw = "1.5"
		}
		// Go prints exponents with at least two digits and an explicit sign: legal JSON
		g.feat("num_17digit")
	case 6: // shortest float spelling in several styles
		f, _ := GenFloat(g.t)
		raw = strconv.FormatFloat(f, byte([]rune{'e', 'g', 'f'}[drawInt(g.t, 0, 2, "fmt")]), -1, 64)
		if len(raw) > 400 {
			raw = strconv.FormatFloat(f, 'e', -1, 64)
		}
		g.feat("num_shortest")
	}
	v, err := ExpectNumber(raw)
	if err != nil {
		// outside float64 range: not in the property's domain; generate by construction instead
		raw = "0.5"
		v = VFloat(0.5)
	}
	g.sb.WriteString(raw)
	return v
}

func (g *docGen) value(depth int) V {
	k := pick(g.t, "vk", 4, 6, 26, 26, 19, 19)
	if depth <= 0 && k >= 4 {
		k = 2 + drawInt(g.t, 0, 1, "leafk")
	}
	switch k {
	case 0:
		g.sb.WriteString("null")
		return VNil()
	case 1:
		b := drawBool(g.t, "b")
		g.sb.WriteString(strconv.FormatBool(b))
		return VBool(b)
	case 2:
		return g.number()
	case 3:
		s := GenString(g.t, 10)
		g.str(s)
		return VStr(s)
	case 4:
		return g.array(depth)
	}
	return g.object(depth)
}

func (g *docGen) array(depth int) V {
	if depth < 62 {
		g.feat("nesting")
	}
	g.sb.WriteByte('[')
	n := widthFor(g.t, TreeCfg{MaxWidth: g.maxW})
	out := V{K: KList, L: make([]V, 0, n)}
	for i := 0; i < n; i++ {
		if i > 0 {
			g.sb.WriteByte(',')
		}
		g.ws()
		out.L = append(out.L, g.value(depth-1))
		g.ws()
	}
	if n == 0 {
		g.ws()
		g.feat("empty_array")
	}
	g.sb.WriteByte(']')
	return out
}

func (g *docGen) object(depth int) V {
	g.sb.WriteByte('{')
	n := widthFor(g.t, TreeCfg{MaxWidth: g.maxW})
	out := V{K: KObject}
	idx := map[string]int{}
	for i := 0; i < n; i++ {
		if i > 0 {
			g.sb.WriteByte(',')
		}
		g.ws()
		var key string
		if len(out.O) > 0 && oneIn(g.t, 8, "dup") {
			key = out.O[drawIdx(g.t, len(out.O), "dupi")].K
			g.feat("duplicate_key")
		} else {
			key = GenString(g.t, 8)
		}
		g.str(key)
		g.ws()
		g.sb.WriteByte(':')
		g.ws()
		v := g.value(depth - 1)
		g.ws()
		if j, ok := idx[key]; ok {
			out.O[j].V = v
			g.feat("duplicate_key")
		} else {
			idx[key] = len(out.O)
			out.O = append(out.O, Pair{key, v})
		}
	}
	if n == 0 {
		g.ws()
		g.feat("empty_object")
	}
	g.sb.WriteByte('}')
	return out
}

func GenC03(t *rapid.T) *C03Case {
	if oneIn(t, 2500, "records") {
		// a long flat document: whatever the parser keeps per container it enters (a depth counter, a
		// stack, a pool) must be released when it leaves it
		return &C03Case{Text: c03Records[drawIdx(t, len(c03Records), "rec")], Records: []int{9999, 10001, 12000, 20000}[drawIdx(t, 4, "nrec")], RecordsInObject: oneIn(t, 3, "inobj")}
	}
	if oneIn(t, 40, "fewrecords") {
		// the same record text two to five times in one document (equal subtrees at several places)
		return &C03Case{Text: c03Records[drawIdx(t, len(c03Records), "rec")], Records: drawInt(t, 2, 5, "nrec"), RecordsInObject: oneIn(t, 3, "inobj")}
	}
	g := &docGen{t: t, feats: map[string]bool{}, maxW: 5}
	depth := drawInt(t, 1, 6, "depth")
	g.ws()
	var v V
	chain := 0
	if oneIn(t, 41, "chain") {
		// deep chain class
		max := 64
		if Thorough() {
			max = 2000
		}
		chain = drawInt(t, 8, max, "chainlen")
	}
	if chain > 0 {
		kinds := make([]bool, chain)
		for i := range kinds {
			kinds[i] = drawBool(t, "cl")
			if kinds[i] {
				g.sb.WriteByte('[')
			} else {
				g.sb.WriteString(`{"k":`)
			}
		}
		v = g.value(1)
		for i := chain - 1; i >= 0; i-- {
			if kinds[i] {
				g.sb.WriteByte(']')
				v = VList(v)
			} else {
				g.sb.WriteByte('}')
				v = VObj(Pair{"k", v})
			}
		}
		g.feat("deep_chain")
	} else if drawBool(t, "rootlist") {
		v = g.array(depth)
	} else {
		v = g.object(depth)
	}
	g.ws()
	c := &C03Case{Text: g.sb.String(), Expect: &v}
	if oneIn(t, 6, "poison") {
		c.Poison = 1 + genRaw(t)
	}
	return c
}

// c03Features classifies a document from its text and token tree (works for
// generated and for fuzzed documents alike).
func c03Features(text string, j JV) map[string]bool {
	f := map[string]bool{}
	depth := 0
	var walk func(j JV, d int)
	scanRaw := func(raw string) {
		for i := 0; i+1 < len(raw); i++ {
			if raw[i] == '\\' {
				switch raw[i+1] {
				case '"', '\\', 'n':
					f["escape_common"] = true
				case '/':
					f["escape_solidus"] = true
				case 'u':
					f["escape_u"] = true
					if i+6 <= len(raw) && (raw[i+2] == 'd' || raw[i+2] == 'D') && strings.ContainsRune("89abAB", rune(raw[i+3])) {
						f["escape_surrogate_pair"] = true
					}
				default:
					f["escape_short_other"] = true
				}
				i++
			} else if raw[i] >= 0x80 {
				f["raw_nonascii"] = true
			}
		}
	}
	walk = func(j JV, d int) {
		if d > depth {
			depth = d
		}
		switch j.Kind {
		case 's':
			scanRaw(j.Raw)
		case '#':
			if v, err := ExpectNumber(j.Raw); err == nil {
				canon := ""
				if v.K == KInt {
					canon = strconv.FormatInt(v.I, 10)
				}
				if canon != j.Raw {
					f["num_noncanonical"] = true
				}
			}
		case '[':
			for _, e := range j.Arr {
				walk(e, d+1)
			}
		case '{':
			seen := map[string]bool{}
			for _, p := range j.Obj {
				scanRaw(p.RawKey)
				if seen[p.Key] {
					f["duplicate_key"] = true
				}
				seen[p.Key] = true
				walk(p.Val, d+1)
			}
		}
	}
	walk(j, 1)
	if depth >= 3 {
		f["nesting>=2"] = true
	}
	// inter-token whitespace: any whitespace outside strings
	in := false
	for i := 0; i < len(text); i++ {
		c := text[i]
		if in {
			if c == '\\' {
				i++
			} else if c == '"' {
				in = false
			}
			continue
		}
		if c == '"' {
			in = true
		} else if c == ' ' || c == '\t' || c == '\n' || c == '\r' {
			f["whitespace"] = true
			break
		}
	}
	return f
}

func CheckC03(c *C03Case, st *Stats) error {
	text := c.Text
	if c.Records > 0 {
		var sb strings.Builder
		open, closing := "[", "]"
		if c.RecordsInObject {
			open, closing = "{", "}"
		}
		sb.WriteString(open)
		for i := 0; i < c.Records; i++ {
			if i > 0 {
				sb.WriteByte(',')
			}
			if c.RecordsInObject {
				fmt.Fprintf(&sb, "\"k%d\":", i)
			}
			sb.WriteString(c.Text)
		}
		sb.WriteString(closing)
		text = sb.String()
		st.Count("flat_records")
	}
	if !utf8.ValidString(text) {
		st.Count("skip.invalid_utf8")
		return nil
	}
	j, info, err := CrossCheckScan(text)
	if err != nil {
		if hb, ok := err.(*HarnessBug); ok {
			return hb
		}
		if c.Expect != nil {
			return &HarnessBug{fmt.Sprintf("generator produced a document the strict scanner rejects: %v: %q", err, clip(text, 300))}
		}
		st.Count("skip.not_json")
		return nil
	}
	if j.Kind != '[' && j.Kind != '{' {
		st.Count("skip.scalar_root")
		return nil
	}
	if info.LoneSurrogate {
		if c.Expect != nil {
			return &HarnessBug{"generator produced a lone surrogate escape"}
		}
		st.Count("skip.lone_surrogate")
		return nil
	}
	want, err := JVToV(j)
	if err != nil {
		if c.Expect != nil {
			return &HarnessBug{fmt.Sprintf("generator produced an out-of-range number: %v", err)}
		}
		st.Count("skip.number_out_of_range")
		return nil
	}
	if c.Expect != nil && !EqVBits(want, *c.Expect) {
		return &HarnessBug{fmt.Sprintf("generator's expected tree %s differs from the strict scanner's %s for %q", c.Expect.Show(), want.Show(), clip(text, 300))}
	}
	feats := c03Features(text, j)
	for f := range feats {
		st.Count("feature." + f)
	}
	for f := range feats {
		if f != "escape_common" {
			st.MarkNonTrivial()
			break
		}
	}
	st.Count("root." + want.K.String())
	if d := want.Depth(); d >= 64 {
		st.Count("depth>=64")
	}

	if c.Poison > 0 {
		poisonParser(text, c.Poison)
		st.Count("failed_parse_first")
	}
	got, perr := parseRoot(want.K, text)
	if perr != nil || got == nil {
		return errf("valid JSON document rejected: %v\n text: %q\n reference decoder reads: %s", perr, clip(text, 400), want.Show())
	}
	snap, serr := Snap(got)
	if serr != nil {
		return errf("parsed container inconsistent: %v", serr)
	}
	if !EqVBits(snap, want) {
		return errf("parser result differs from the reference decoder:\n text: %q\n reference: %s\n parser:    %s", clip(text, 400), want.Show(), snap.Show())
	}
	// a decoder builds a tree: every array and object of the text is a container of its own (two equal
	// texts at two places are two containers, so that a later write to one does not show in the other)
	if want.Depth() < 2000 {
		seen := map[any]bool{}
		for _, id := range Idents(got) {
			if seen[id] {
				return errf("the parser stored ONE container instance at two places of the result (%s)\n text: %q", clip(showAny(id), 120), clip(text, 400))
			}
			seen[id] = true
		}
	}
	return nil
}

func init() {
	Register("C03",
		"grammar-directed generation of RFC 8259 documents with array/object root: every whitespace position, per-character spelling choice (raw, short escape incl. \\/, \\uXXXX in upper/lower/mixed hex, surrogate-pair escapes), number spellings (canonical, -0, beyond-int64 integers, fractions with trailing zeros, e/E exponents with +/-/none and leading zeros, 17-digit), duplicate keys, empty containers, deep chains; expected tree known by construction and cross-checked against a strict scanner and encoding/json on every case. Thorough adds coverage-guided fuzzing of the generator and of raw bytes filtered to valid documents. One case in 2500 is a flat array or object of 9999-20000 copies of a small record. Non-trivial = document uses an escape other than \\\" \\\\ \\n, a non-canonical number spelling, inter-token whitespace, a duplicate key, nesting >= 2 or a raw non-ASCII character. Distinct = distinct FNV-64a hash of the case JSON. One case in six first hands both parsers the document cut at a drawn byte (a failed parse) before the whole document is parsed. One case in forty repeats one record text 2-5 times in a document; every array and object of the text must be a container instance of its own in the result.",
		GenC03, CheckC03)
}
