package harness

import (
	"fmt"
	"math"
	"sort"
	"strconv"

	at "github.com/DanielSvub/anytype"
	"pgregory.net/rapid"
)

// C17: Sort orders in place without losing elements; Reverse is an exact involution.

type C17Case struct {
	Mode   string   `json:"mode"` // "strings", "ints", "floats", "reverse", "badsort"
	Strs   []string `json:"strs,omitempty"`
	Ints   []int64  `json:"ints,omitempty"`
	Floats []uint64 `json:"floats,omitempty"`
	Tree   *V       `json:"tree,omitempty"` // list of any kinds (reverse / badsort)
	Twice  bool     `json:"twice,omitempty"`
	Route  int      `json:"route,omitempty"` // construction route (see listByRoute)
	// Ops: further Sort / Reverse calls after the first Sort (sort modes only), each followed by a
	// comparison with the model (Sort -> sorted, Reverse -> reversed)
	Ops []string `json:"ops,omitempty"`
	// Fill > 0 (built at check time, the case stays small): mode "ints": the list additionally holds Fill
	// copies of FillV between the drawn ints (one value occurring tens of thousands of times); mode
	// "reverse": the list is the ints 0..Fill-1
	Fill  int   `json:"fill,omitempty"`
	FillV int64 `json:"fillv,omitempty"`
}

var sortStrings = []string{"", "a", "b", "ab", "abc", "B", "é", "e", "z", "aa", "a ", "\x00", "ÿ", "😀", "A", "a\x00"}

func GenC17(t *rapid.T) *C17Case {
	n := []int{1, 2, 3, 4, 5, 6, 7, 8, 9, 12, 13, 16, 17, 25, 32, 33, 40, 64, 65, 100, 129, 11, 12, 13, 256, 257}[drawIdx(t, 26, "n")]
	// occasionally thousands of elements drawn from a small range, so that a value occurs many times in
	// every part of the list (divide-and-merge or parallel sorting above a size threshold)
	huge := oneIn(t, 150, "huge")
	if huge {
		n = []int{1023, 1024, 2047, 2048, 2049, 4096, 5000}[drawIdx(t, 7, "hugen")]
	}
	c := &C17Case{Twice: drawBool(t, "twice"), Route: drawInt(t, 0, numListRoutes-1, "route")}
	if oneIn(t, 1500, "giant") {
		// tens of thousands of elements (counters, block sizes and thresholds far above the usual)
		if drawBool(t, "giantreverse") {
			c.Mode, c.Fill = "reverse", []int{8194, 10000, 20001, 16385}[drawIdx(t, 4, "gr")]
			return c
		}
		c.Mode, c.Fill, c.FillV = "ints", []int{65536, 70000, 131073}[drawIdx(t, 3, "gf")], int64(drawInt(t, -1, 7, "gv"))
		for i, k := 0, drawInt(t, 3, 20, "extras"); i < k; i++ {
			c.Ints = append(c.Ints, int64(drawInt(t, -3, 9, "x")))
		}
		return c
	}
	if drawBool(t, "seq") {
		for i, n := 0, drawInt(t, 1, 5, "nops"); i < n; i++ {
			c.Ops = append(c.Ops, []string{"sort", "reverse", "sort", "reverse", "replace", "add", "insert", "delete", "settf", "foreachpanic"}[drawIdx(t, 10, "op")])
		}
	}
	shape := drawInt(t, 0, 3, "shape") // 0 random, 1 sorted, 2 reverse sorted, 3 duplicate-heavy
	switch pick(t, "mode", 25, 25, 25, 17, 8) {
	case 0:
		c.Mode = "strings"
		for i := 0; i < n; i++ {
			if shape == 3 {
				c.Strs = append(c.Strs, sortStrings[drawInt(t, 0, 3, "s")])
			} else if huge || drawInt(t, 0, 2, "pool") > 0 {
				c.Strs = append(c.Strs, sortStrings[drawIdx(t, len(sortStrings), "s")])
			} else {
				c.Strs = append(c.Strs, GenString(t, 5))
			}
		}
		if shape == 1 || shape == 2 {
			sort.Strings(c.Strs)
		}
		if shape == 2 {
			for i, j := 0, len(c.Strs)-1; i < j; i, j = i+1, j-1 {
				c.Strs[i], c.Strs[j] = c.Strs[j], c.Strs[i]
			}
		}
	case 1:
		c.Mode = "ints"
		for i := 0; i < n; i++ {
			if shape == 3 {
				c.Ints = append(c.Ints, int64(drawInt(t, -1, 1, "i")))
			} else if huge {
				c.Ints = append(c.Ints, int64(drawInt(t, -300, 300, "i")))
			} else {
				v, _ := GenInt(t)
				c.Ints = append(c.Ints, int64(v))
			}
		}
		if shape == 1 || shape == 2 {
			sort.Slice(c.Ints, func(i, j int) bool { return (c.Ints[i] < c.Ints[j]) != (shape == 2) })
		}
	case 2:
		c.Mode = "floats"
		for i := 0; i < n; i++ {
			var f float64
			switch {
			case shape == 3:
				f = []float64{0, math.Copysign(0, -1), 1, -1, 0.5}[drawInt(t, 0, 4, "f")]
			case huge:
				f = float64(drawInt(t, -200, 200, "f")) / 4
			case oneIn(t, 6, "inf"):
				f = []float64{math.Inf(1), math.Inf(-1), math.MaxFloat64, -math.MaxFloat64, 5e-324, -5e-324}[drawIdx(t, 6, "x")]
			default:
				f, _ = GenFloat(t)
			}
			c.Floats = append(c.Floats, math.Float64bits(f))
		}
		if shape == 1 || shape == 2 {
			sort.Slice(c.Floats, func(i, j int) bool {
				return (math.Float64frombits(c.Floats[i]) < math.Float64frombits(c.Floats[j])) != (shape == 2)
			})
		}
	case 3:
		c.Mode = "reverse"
		cfg := TreeCfg{MaxDepth: 2, MaxWidth: 3, MaxStr: 4}
		v := V{K: KList}
		m := min(n, 300)
		if oneIn(t, 10, "empty") {
			m = 0
		}
		for i := 0; i < m; i++ {
			v.L = append(v.L, GenValue(t, cfg, 2))
		}
		c.Tree = &v
	case 4:
		c.Mode = "badsort"
		cfg := TreeCfg{MaxDepth: 2, MaxWidth: 3, MaxStr: 4}
		first := []V{VNil(), VBool(true), VBool(false), VList(), VObj(), VList(VInt(1)), VObj(Pair{"a", VStr("b")})}[drawIdx(t, 7, "first")]
		v := V{K: KList, L: []V{first}}
		for i := 1; i < min(n, 300); i++ {
			v.L = append(v.L, GenValue(t, cfg, 1))
		}
		c.Tree = &v
	}
	return c
}

func CheckC17(c *C17Case, st *Stats) error {
	st.Count("mode." + c.Mode)
	switch c.Mode {
	case "strings", "ints", "floats":
		shape := V{K: KList}
		var elems []any
		switch c.Mode {
		case "strings":
			for _, s := range c.Strs {
				shape.L = append(shape.L, VStr(s))
				elems = append(elems, s)
			}
		case "ints":
			for k, i := range c.Ints {
				shape.L = append(shape.L, VInt(int(i)))
				elems = append(elems, int(i))
				if c.Fill > 0 && k == len(c.Ints)/2 {
					for j := 0; j < c.Fill; j++ {
						shape.L = append(shape.L, VInt(int(c.FillV)))
						elems = append(elems, int(c.FillV))
					}
					st.Count("giant_with_one_frequent_value")
				}
			}
		case "floats":
			for _, f := range c.Floats {
				x := math.Float64frombits(f)
				if x != x {
					return nil // NaN is outside the property
				}
				shape.L = append(shape.L, VFloat(x))
				elems = append(elems, x)
			}
		}
		n := len(elems)
		l := listByRoute(shape, elems, c.Route%numListRoutes, n)
		st.Count(fmt.Sprintf("route.%d", c.Route%numListRoutes))
		if n == 0 {
			return nil
		}
		if n%2 == 0 {
			st.Count("len.even")
		} else {
			st.Count("len.odd")
		}
		alias := l // a second reference to the same list
		beforeV, err := Snap(l)
		if err != nil {
			return err
		}
		multiset := func(v V) map[string]int {
			m := map[string]int{}
			for _, e := range v.L {
				key := e.K.String() + ":" + e.S
				if e.K == KInt {
					key += fmtInt(e.I)
				}
				if e.K == KFloat {
					key += fmtInt(int64(e.F)) // bit pattern: -0 and +0 are tracked separately
				}
				m[key]++
			}
			return m
		}
		var ret at.List
		if p, panicked := catch(func() { ret = l.Sort() }); panicked {
			return errf("Sort panicked on a homogeneous %s list: %v (%s)", c.Mode, p, beforeV.Show())
		}
		if any(ret) != any(l) {
			return errf("Sort did not return the list it was called on")
		}
		afterV, err := Snap(alias)
		if err != nil {
			return err
		}
		if len(afterV.L) != n {
			return errf("Sort changed the length from %d to %d: %s -> %s", n, len(afterV.L), beforeV.Show(), afterV.Show())
		}
		for i := 0; i+1 < len(afterV.L); i++ {
			a, b := afterV.L[i], afterV.L[i+1]
			if a.K != b.K {
				return errf("Sort changed an element kind: %s", afterV.Show())
			}
			ok := true
			switch a.K {
			case KString:
				ok = a.S <= b.S
			case KInt:
				ok = a.I <= b.I
			case KFloat:
				ok = a.Float() <= b.Float()
			}
			if !ok {
				return errf("after Sort elements %d and %d are out of order: %s (input %s)", i, i+1, afterV.Show(), beforeV.Show())
			}
		}
		mb, ma := multiset(beforeV), multiset(afterV)
		if len(mb) != len(ma) {
			return errf("Sort changed the multiset of elements: %s -> %s", beforeV.Show(), afterV.Show())
		}
		for k, cnt := range mb {
			if ma[k] != cnt {
				return errf("Sort lost, duplicated or altered an element (%q: %d -> %d): %s -> %s", k, cnt, ma[k], beforeV.Show(), afterV.Show())
			}
		}
		// sorting twice equals sorting once
		l.Sort()
		again, _ := Snap(l)
		if !EqV(again, afterV) {
			return errf("a second Sort changed the list: %s -> %s", afterV.Show(), again.Show())
		}
		// further Sort / Reverse calls against a model
		model := append([]V{}, again.L...)
		for oi, op := range c.Ops {
			if len(model) <= 1 && (op == "delete" || op == "sort") {
				continue // Sort is only specified on non-empty lists; never delete the last element
			}
			switch op {
			case "sort":
				l.Sort()
				sort.SliceStable(model, func(i, j int) bool {
					switch model[i].K {
					case KString:
						return model[i].S < model[j].S
					case KInt:
						return model[i].I < model[j].I
					}
					return model[i].Float() < model[j].Float()
				})
			case "reverse":
				l.Reverse()
				for i, j := 0, len(model)-1; i < j; i, j = i+1, j-1 {
					model[i], model[j] = model[j], model[i]
				}
			case "foreachpanic":
				// a view whose callback gives up part-way (the caller recovers): the list is untouched and
				// must remain sortable and reversible afterwards
				calls := 0
				catch(func() {
					switch oi % 4 {
					case 0:
						l.ForEach(func(int, any) { calls++; panic("callback gives up") })
					case 1:
						l.ForEachValue(func(any) {
							calls++
							if calls == 2 {
								panic("callback gives up")
							}
						})
					case 2:
						l.Map(func(int, any) any { calls++; panic("callback gives up") })
					default:
						l.Filter(func(any) bool { calls++; panic("callback gives up") })
					}
				})
			case "replace", "add", "insert", "delete", "settf":
				// a mutation with a value of the list's own kind, derived deterministically from the step
				if len(model) == 0 {
					continue
				}
				idx := (oi*5 + 1) % len(model)
				src := model[(oi*7+2)%len(model)]
				var nv V
				switch src.K {
				case KString:
					nv = VStr(src.S + "~")
				case KInt:
					nv = V{K: KInt, I: -src.I/2 + int64(oi)}
				default:
					nv = VFloat(-src.Float()/2 + float64(oi) + 0.5)
				}
				switch op {
				case "replace":
					l.Replace(idx, Build(nv))
					model[idx] = nv
				case "settf":
					l.SetTF("#"+strconv.Itoa(idx), Build(nv))
					model[idx] = nv
				case "add":
					l.Add(Build(nv))
					model = append(model, nv)
				case "insert":
					l.Insert(idx, Build(nv))
					model = append(model, V{})
					copy(model[idx+1:], model[idx:])
					model[idx] = nv
				case "delete":
					l.Delete(idx)
					model = append(model[:idx:idx], model[idx+1:]...)
				}
			default:
				continue
			}
			now, err := Snap(l)
			if err != nil {
				return err
			}
			if !EqV(now, V{K: KList, L: model}) {
				return errf("after the initial Sort and then %v (step %d: %s) the list is %s, expected %s", c.Ops[:oi+1], oi, op, now.Show(), V{K: KList, L: model}.Show())
			}
			st.Count("seqop." + op)
		}
		sorted := true
		for i := 0; i+1 < n; i++ {
			a, b := beforeV.L[i], beforeV.L[i+1]
			if (a.K == KString && a.S > b.S) || (a.K == KInt && a.I > b.I) || (a.K == KFloat && a.Float() > b.Float()) {
				sorted = false
			}
		}
		dup := len(mb) < n
		extreme := false
		for _, e := range beforeV.L {
			if (e.K == KInt && (e.I == math.MaxInt64 || e.I == math.MinInt64)) || (e.K == KFloat && (math.IsInf(e.Float(), 0) || e.Float() == 0)) || (e.K == KString && (e.S == "" || hardString(e.S))) {
				extreme = true
			}
		}
		if n >= 3 && !sorted && (dup || extreme) {
			st.MarkNonTrivial()
		}
		if dup {
			st.Count("has_duplicates")
		}
		if sorted {
			st.Count("already_sorted")
		}
		return nil

	case "reverse":
		if c.Fill > 0 && c.Tree == nil {
			big := V{K: KList, L: make([]V, c.Fill)}
			for i := range big.L {
				big.L[i] = VInt(i)
			}
			c = &C17Case{Mode: c.Mode, Tree: &big, Route: 0}
			st.Count("giant_reverse")
		}
		if c.Tree == nil || c.Tree.K != KList {
			return nil
		}
		l := BuildVariant(*c.Tree, c.Route).(at.List)
		n := l.Count()
		orig := l.Slice()
		before, _ := TakeIdentSnap(l)
		var ret at.List
		if p, panicked := catch(func() { ret = l.Reverse() }); panicked {
			return errf("Reverse panicked: %v", p)
		}
		if any(ret) != any(l) {
			return errf("Reverse did not return the list it was called on")
		}
		if l.Count() != n {
			return errf("Reverse changed the length %d -> %d", n, l.Count())
		}
		for i := 0; i < n; i++ {
			if !ifaceEq(l.Get(n-1-i), orig[i]) {
				return errf("after Reverse the element from position %d is not at position %d (length %d): %s", i, n-1-i, n, clip(l.String(), 200))
			}
		}
		l.Reverse()
		after, _ := TakeIdentSnap(l)
		if !before.Same(after) {
			return errf("Reverse applied twice does not restore the list: %s -> %s", before.Tree.Show(), after.Tree.Show())
		}
		if n%2 == 0 {
			st.Count("len.even")
		} else {
			st.Count("len.odd")
		}
		if n >= 3 {
			st.MarkNonTrivial()
		}
		return nil

	case "badsort":
		if c.Tree == nil || c.Tree.K != KList || len(c.Tree.L) == 0 {
			return nil
		}
		switch c.Tree.L[0].K {
		case KString, KInt, KFloat:
			return nil
		}
		l := BuildList(*c.Tree)
		before, _ := TakeIdentSnap(l)
		if _, panicked := catch(func() { l.Sort() }); !panicked {
			return errf("Sort on a list whose first element is a %v did not panic: %s", c.Tree.L[0].K, c.Tree.Show())
		}
		after, err := TakeIdentSnap(l)
		if err != nil {
			return err
		}
		if !before.Same(after) {
			return errf("a rejected Sort changed the list: %s -> %s", before.Tree.Show(), after.Tree.Show())
		}
		st.MarkNonTrivial()
	}
	return nil
}

func fmtInt(i int64) string {
	neg := i < 0
	u := uint64(i)
	if neg {
		u = uint64(-i)
	}
	if u == 0 {
		return "0"
	}
	var b [24]byte
	p := len(b)
	for u > 0 {
		p--
		b[p] = byte('0' + u%10)
		u /= 10
	}
	if neg {
		p--
		b[p] = '-'
	}
	return string(b[p:])
}

func init() {
	Register("C17",
		"homogeneous lists of strings / ints / non-NaN floats of length 1-40 (occasionally 64-257; in one case of 150 1023-5000 elements from a small range, so that every value occurs many times in every part of the list; one case in 1500 has 65536-131073 copies of one int among a few others, or reverses 8194-20001 distinct ints), built through drawn construction routes (shared element wrappers after NewListOf/Concat/SubList, typed-slice origin), optionally followed by a drawn sequence of further Sort/Reverse calls checked against a model, (1, even, odd; random, already sorted, reverse sorted, duplicate-heavy; extremes MinInt, MaxInt, +-Inf, +-0, +-MaxFloat64, subnormals, empty string, non-ASCII, prefixes of each other), lists of any kinds for Reverse, and lists whose first element is nil/bool/list/object for the panic clause. Oracle: Sort returns the same list, adjacent elements non-decreasing (strings bytewise), the multiset is unchanged (floats by bit pattern), a second Sort changes nothing; Reverse puts element i (identity for containers) at n-1-i and twice restores content and identities; Sort with a bad first element panics and leaves the list unchanged. Non-trivial = sort of length >= 3 not already sorted with a duplicate or an extreme value, reverse of length >= 3, or the panic clause. Distinct = distinct FNV-64a hash of the case JSON.",
		GenC17, CheckC17)
}
