package harness

import (
	"math"
	"strconv"
	"strings"

	at "github.com/DanielSvub/anytype"
	"pgregory.net/rapid"
)

// C07: Equals is exactly typed structural equality, hence an equivalence relation.

type C07Case struct {
	A    V      `json:"a"`
	B    V      `json:"b"`
	C    *V     `json:"c,omitempty"`
	Rel  string `json:"rel"`  // how B was derived from A
	Rel2 string `json:"rel2"` // how C was derived from B
	// Share: equal non-empty container subtrees of A are stored as ONE instance (a DAG); the generator
	// then duplicates a container child of A so that such subtrees exist
	Share bool `json:"share,omitempty"`
	// Muts: mutations of (nested) containers of A after the first comparisons; Equals is evaluated again after each
	Muts []CloneMut `json:"muts,omitempty"`
	// Builds: construction-route seeds of the operands (0 = Add/Set); equal content reached through
	// different routes must still compare equal
	Builds []int `json:"builds,omitempty"`
}

func equalityTreeCfg() TreeCfg {
	cfg := DefaultTreeCfg()
	cfg.MaxStr = 5
	cfg.LongLists = true
	cfg.KeyGen = func(t *rapid.T) string {
		return []string{"a", "b", "c", "", "k.1", "é", "key"}[drawIdx(t, 7, "key")]
	}
	cfg.LeafExtra = func(t *rapid.T) (V, bool) {
		// the infinities are ordinary values for Equals (equal to themselves, unlike NaN)
		if oneIn(t, 30, "inf") {
			return VFloat(math.Inf(1 - 2*drawInt(t, 0, 1, "sign"))), true
		}
		return V{}, false
	}
	return cfg
}

// editTree applies exactly one edit somewhere in the tree and describes it.
// depth is the depth of the node being considered (root = 0).
func editTree(t *rapid.T, v V, depth int, cfg TreeCfg) (V, string) {
	// descend?
	switch v.K {
	case KList:
		if len(v.L) > 0 && drawInt(t, 0, 9, "descend") < 6 {
			i := drawIdx(t, len(v.L), "child")
			if len(v.L) > 20 && drawBool(t, "tail") {
				// long lists: edit near the end, in the exact middle or next to it, or at the start - the places
				// a comparison that walks in blocks or from both ends is most likely to skip
				n := len(v.L)
				i = []int{n - 1, n - 2, n - 3, n - 4, n / 2, n/2 - 1, n/2 + 1, (n - 1) / 2, n / 2, 0, 1}[drawIdx(t, 11, "farwhere")]
			}
			out := v.Clone()
			e, what := editTree(t, v.L[i], depth+1, cfg)
			out.L[i] = e
			return out, what
		}
	case KObject:
		if len(v.O) > 0 && drawInt(t, 0, 9, "descend") < 6 {
			i := drawIdx(t, len(v.O), "child")
			out := v.Clone()
			e, what := editTree(t, v.O[i].V, depth+1, cfg)
			out.O[i].V = e
			return out, what
		}
	}
	d := "@depth" + strconv.Itoa(min(depth, 3))
	out := v.Clone()
	switch v.K {
	case KNil:
		if depth == 0 {
			return out, "none"
		}
		return VBool(false), "kind_change" + d
	case KBool:
		if depth > 0 && drawBool(t, "kind") {
			return VNil(), "kind_change" + d
		}
		return VBool(!v.B), "value_change" + d
	case KInt:
		switch drawInt(t, 0, 2, "how") {
		case 0:
			if float64(v.I) == math.Trunc(float64(v.I)) && int64(float64(v.I)) == v.I {
				return VFloat(float64(v.I)), "kind_change_int_float" + d
			}
		case 1:
			return VStr(strconv.FormatInt(v.I, 10)), "kind_change_int_string" + d
		}
		return V{K: KInt, I: v.I ^ 1}, "value_change" + d
	case KFloat:
		f := v.Float()
		if drawBool(t, "kind") && f == math.Trunc(f) && math.Abs(f) < 1e15 {
			return VInt(int(f)), "kind_change_float_int" + d
		}
		g := f*2 + 1
		if g == f || math.IsInf(g, 0) {
			g = 0.5
		}
		return VFloat(g), "value_change" + d
	case KString:
		if oneIn(t, 4, "kind") {
			if i, err := strconv.Atoi(v.S); err == nil {
				return VInt(i), "kind_change_string_int" + d
			}
		}
		if up := strings.ToUpper(v.S); up != v.S && drawBool(t, "case") {
			return VStr(up), "value_change_case_only" + d
		}
		return VStr(v.S + "x"), "value_change" + d
	case KList:
		switch choice := drawInt(t, 0, 4, "listedit"); {
		case choice == 0 || len(v.L) == 0 && choice != 4:
			out.L = append(out.L, GenLeaf(t, cfg))
			return out, "element_appended" + d
		case choice == 1:
			i := drawIdx(t, len(v.L), "rm")
			out.L = append(out.L[:i:i], out.L[i+1:]...)
			return out, "element_removed" + d
		case choice == 2 && len(v.L) >= 2:
			i, j := 0, len(v.L)-1
			if EqV(out.L[i], out.L[j]) {
				out.L[j] = VStr("swapped")
			}
			out.L[i], out.L[j] = out.L[j], out.L[i]
			return out, "elements_swapped" + d
		case choice == 3:
			out.L = append([]V{GenLeaf(t, cfg)}, out.L...)
			return out, "element_prepended" + d
		case len(v.L) == 0 && depth > 0:
			return V{K: KObject}, "kind_change_empty_list_object" + d
		}
		out.L = append(out.L, VNil())
		return out, "element_appended" + d
	case KObject:
		switch choice := drawInt(t, 0, 4, "objedit"); {
		case choice == 0 || len(v.O) == 0 && choice != 4:
			k := "new"
			for _, ok := v.Field(k); ok; _, ok = v.Field(k) {
				k += "_"
			}
			out.O = append(out.O, Pair{k, GenLeaf(t, cfg)})
			return out, "field_added" + d
		case choice == 1:
			i := drawIdx(t, len(v.O), "rm")
			out.O = append(out.O[:i:i], out.O[i+1:]...)
			return out, "field_removed" + d
		case choice == 2:
			i := drawIdx(t, len(v.O), "rn")
			k := out.O[i].K + "~"
			for _, ok := v.Field(k); ok; _, ok = v.Field(k) {
				k += "~"
			}
			out.O[i].K = k
			return out, "key_renamed" + d
		case choice == 3 && len(v.O) >= 2:
			// same fields, permuted insertion order: must stay equal
			rev := make([]Pair, len(out.O))
			for i, p := range out.O {
				rev[len(out.O)-1-i] = p
			}
			out.O = rev
			return out, "field_order_permuted" + d
		case len(v.O) == 0 && depth > 0:
			return V{K: KList}, "kind_change_empty_object_list" + d
		}
		out.O = append(out.O, Pair{"new?", VNil()})
		if _, dup := v.Field("new?"); dup {
			return v.Clone(), "none"
		}
		return out, "field_added" + d
	}
	return out, "none"
}

func deriveEq(t *rapid.T, a V, cfg TreeCfg) (V, string) {
	switch pick(t, "rel", 15, 65, 10, 10) {
	case 0:
		return a.Clone(), "copy"
	case 1:
		return editTree(t, a, 0, cfg)
	case 2:
		// two edits
		b, w1 := editTree(t, a, 0, cfg)
		c, w2 := editTree(t, b, 0, cfg)
		return c, "two_edits(" + w1 + "," + w2 + ")"
	}
	// unrelated tree with the same root kind
	depth := drawInt(t, 1, 3, "depth")
	if a.K == KList {
		return GenListV(t, cfg, depth), "unrelated"
	}
	return GenObjectV(t, cfg, depth), "unrelated"
}

func GenC07(t *rapid.T) *C07Case {
	cfg := equalityTreeCfg()
	a := GenRoot(t, cfg)
	if oneIn(t, 15, "deepchain") {
		chainCfg := cfg
		chainCfg.LongLists = false
		inner := GenChain(t, chainCfg, 70)
		if a.K == KList {
			a.L = append(a.L, inner)
		} else if _, dup := a.Field("chain"); !dup {
			a.O = append(a.O, Pair{"chain", inner})
		}
	}
	share := false
	if oneIn(t, 5, "share") {
		// duplicate one container child so that the same content occurs twice
		var kids []V
		if a.K == KList {
			for _, e := range a.L {
				if (e.K == KList && len(e.L) > 0) || (e.K == KObject && len(e.O) > 0) {
					kids = append(kids, e)
				}
			}
		} else {
			for _, p := range a.O {
				if (p.V.K == KList && len(p.V.L) > 0) || (p.V.K == KObject && len(p.V.O) > 0) {
					kids = append(kids, p.V)
				}
			}
		}
		if len(kids) > 0 {
			dup := kids[drawIdx(t, len(kids), "dup")].Clone()
			if a.K == KList {
				a.L = append(a.L, dup)
			} else if _, taken := a.Field("dup"); !taken {
				a.O = append(a.O, Pair{"dup", dup})
			}
			share = true
		}
	}
	b, rel := deriveEq(t, a, cfg)
	c := &C07Case{A: a, B: b, Rel: rel, Share: share}
	if oneIn(t, 4, "recompare") {
		c.Muts = genNestedMuts(t)
	}
	if drawBool(t, "variants") {
		c.Builds = []int{1 + genRaw(t), 1 + genRaw(t), 1 + genRaw(t)}
	}
	if oneIn(t, 3, "triple") {
		cc, rel2 := deriveEq(t, b, cfg)
		if oneIn(t, 3, "tcopy") {
			cc, rel2 = b.Clone(), "copy"
		}
		c.C = &cc
		c.Rel2 = rel2
	}
	return c
}

func eq2(a, b any) (bool, any, bool) {
	var r bool
	p, panicked := catch(func() {
		switch x := a.(type) {
		case at.List:
			r = x.Equals(b.(at.List))
		case at.Object:
			r = x.Equals(b.(at.Object))
		}
	})
	return r, p, panicked
}

// reversedTwin: for a list-rooted tree, x holds the elements in order and y in reverse order; both answer
// every aggregate and text query (whatever a list may remember from those), then x is reversed: now both
// have the same elements position by position and must be equal in both directions.
func reversedTwin(a V, st *Stats) error {
	if a.K != KList || len(a.L) < 2 || a.Depth() > 40 {
		return nil
	}
	rev := V{K: KList, L: make([]V, len(a.L))}
	for i, e := range a.L {
		rev.L[len(a.L)-1-i] = e
	}
	x, y := Build(a).(at.List), Build(rev).(at.List)
	for _, l := range []at.List{x, y} {
		l := l
		catch(func() { l.Sum() })
		catch(func() { l.Avg() })
		catch(func() { l.Prod() })
		catch(func() { l.Min() })
		catch(func() { l.Max() })
		catch(func() { l.IntSum() })
		catch(func() { _ = l.String() })
		catch(func() { l.AllNumeric() })
		catch(func() { l.Contains(1) })
	}
	x.Reverse()
	st.Count("reversed_twin")
	xy, p1, pan1 := eq2(x, y)
	yx, p2, pan2 := eq2(y, x)
	if pan1 || pan2 {
		return errf("Equals panicked on a reversed list and its twin: %v %v", p1, p2)
	}
	if !xy || !yx {
		return errf("a list that was reversed and a list holding the same elements in that order: x.Equals(y) = %v, y.Equals(x) = %v (both had answered Sum/Avg/Min/Max/String before)\n y = %s", xy, yx, rev.Show())
	}
	return nil
}

func CheckC07(c *C07Case, st *Stats) error {
	trees := []V{c.A, c.B}
	if c.C != nil {
		trees = append(trees, *c.C)
	}
	for _, v := range trees {
		if v.K != c.A.K || (v.K != KList && v.K != KObject) {
			return nil // Equals takes a container of the same interface type
		}
	}
	if err := reversedTwin(c.A, st); err != nil {
		return err
	}
	impl := make([]any, len(trees))
	before := make([]IdentSnap, len(trees))
	for i, v := range trees {
		if c.Share && i == 0 {
			impl[i] = BuildSharing(v)
			st.Count("shared_instances_in_a")
		} else if i < len(c.Builds) {
			impl[i] = BuildVariant(v, c.Builds[i])
		} else {
			impl[i] = Build(v)
		}
		s, err := TakeIdentSnap(impl[i])
		if err != nil {
			return err
		}
		before[i] = s
	}
	if len(c.Rel) > 9 && c.Rel[:9] == "two_edits" {
		st.Count("rel.two_edits")
	} else {
		st.Count("rel." + c.Rel)
	}
	if c.C != nil {
		st.Count("triples")
	}
	names := []string{"a", "b", "c"}
	res := map[[2]int]bool{}
	for i := range trees {
		for j := range trees {
			want := EqV(trees[i], trees[j])
			got, p, panicked := eq2(impl[i], impl[j])
			if panicked {
				return errf("%s.Equals(%s) panicked: %v\n %s = %s\n %s = %s", names[i], names[j], p, names[i], trees[i].Show(), names[j], trees[j].Show())
			}
			if got != want {
				return errf("%s.Equals(%s) = %v, typed structural equality says %v (b derived by %s)\n %s = %s\n %s = %s", names[i], names[j], got, want, c.Rel, names[i], trees[i].Show(), names[j], trees[j].Show())
			}
			res[[2]int{i, j}] = got
		}
		// a rebuilt structural copy
		cp := Build(trees[i].Clone())
		got, p, panicked := eq2(impl[i], cp)
		if panicked || !got {
			return errf("%s.Equals(rebuilt copy of %s) = %v (panic %v): %s", names[i], names[i], got, p, trees[i].Show())
		}
	}
	// symmetry and transitivity follow from agreement with EqV; assert them explicitly as well
	for i := range trees {
		if !res[[2]int{i, i}] {
			return errf("Equals is not reflexive on %s", trees[i].Show())
		}
		for j := range trees {
			if res[[2]int{i, j}] != res[[2]int{j, i}] {
				return errf("Equals is not symmetric: %s vs %s", trees[i].Show(), trees[j].Show())
			}
			for k := range trees {
				if res[[2]int{i, j}] && res[[2]int{j, k}] && !res[[2]int{i, k}] {
					return errf("Equals is not transitive on %s, %s, %s", trees[i].Show(), trees[j].Show(), trees[k].Show())
				}
			}
		}
	}
	for i := range trees {
		after, err := TakeIdentSnap(impl[i])
		if err != nil {
			return err
		}
		if !before[i].Same(after) {
			return errf("Equals modified operand %s: %s -> %s", names[i], before[i].Tree.Show(), after.Tree.Show())
		}
	}
	// A changes (also deep inside, through the nested containers' own handles): Equals must follow
	for i, m := range c.Muts {
		ids := Idents(impl[0])
		target := ids[m.Node%len(ids)]
		var applied bool
		if p, panicked := catch(func() { applied = applyCloneMut(impl[0], target, m) }); panicked {
			return errf("mutation %d (%s) panicked: %v", i, m.Op, p)
		}
		if !applied {
			continue
		}
		// Equals is asked FIRST, before anything else reads the changed container (a reader would refresh
		// whatever the container remembers about earlier lookups); the oracle's snapshot is taken afterwards
		type verdict struct {
			ab, ba     bool
			p1, p2     any
			pan1, pan2 bool
		}
		first := make([]verdict, len(trees))
		for j := 1; j < len(trees); j++ {
			v := &first[j]
			v.ba, v.p2, v.pan2 = eq2(impl[j], impl[0])
			v.ab, v.p1, v.pan1 = eq2(impl[0], impl[j])
		}
		nowA, err := Snap(impl[0])
		if err != nil {
			return err
		}
		st.Count("recompared_after." + m.Op)
		for j := 1; j < len(trees); j++ {
			want := EqV(nowA, trees[j])
			ab, p1, pan1 := first[j].ab, first[j].p1, first[j].pan1
			ba, p2, pan2 := first[j].ba, first[j].p2, first[j].pan2
			if pan1 || pan2 {
				return errf("Equals panicked after a %s on a nested container of a: %v %v", m.Op, p1, p2)
			}
			if ab != want || ba != want {
				return errf("after a %s on a nested container of a: a.Equals(%s) = %v, %s.Equals(a) = %v, typed structural equality says %v\n a = %s\n %s = %s", m.Op, names[j], ab, names[j], ba, want, nowA.Show(), names[j], trees[j].Show())
			}
		}
		if self, _, _ := eq2(impl[0], impl[0]); !self {
			return errf("after a %s a no longer Equals itself: %s", m.Op, nowA.Show())
		}
	}
	nt := func(rel string) bool {
		if rel == "" || rel == "copy" || rel == "unrelated" || rel == "none" {
			return false
		}
		return true
	}
	if nt(c.Rel) || nt(c.Rel2) {
		st.MarkNonTrivial()
	}
	if EqV(c.A, c.B) {
		st.Count("pair.equal")
	} else {
		st.Count("pair.different")
	}
	return nil
}

func init() {
	Register("C07",
		"pairs and triples of NaN-free trees (the infinities included) with the same root kind (incl. long lists of 60-130 scalars edited near the end, wide objects of 60-129 keys, chains up to 70 levels): b is a rebuilt copy of a, a with exactly one edit at a drawn depth (scalar value changed (also by letter case only); scalar kind changed keeping its spelling 1<->1.0, nil<->false, \"1\"<->1, []<->{}; key renamed; element/field appended, prepended or removed; two elements swapped; field insertion order permuted), two edits, or an unrelated tree; triples chain two such steps. Oracle: Equals(x,y) == typed structural equality computed by the harness on the generator's trees for ALL ordered pairs (so reflexivity, symmetry, transitivity are also asserted explicitly), Equals with an independently rebuilt copy is true, no call panics, operands unchanged (content and identities). Non-trivial = b (or c) derived by one or two edits (including the order permutation that must stay equal). Distinct = distinct FNV-64a hash of the case JSON. For list roots additionally: x in order and y in reverse order answer Sum/Avg/Prod/Min/Max/IntSum/String, x is reversed, then x.Equals(y) and y.Equals(x) must hold.",
		GenC07, CheckC07)
}
