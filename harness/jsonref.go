package harness

import (
	"bytes"
	"encoding/json"
	"fmt"
	"io"
	"math"
	"strconv"
	"strings"
	"unicode/utf8"
)

func fmtG(f float64) string { return strconv.FormatFloat(f, 'g', -1, 64) }

// JV is a node of the strict scanner's token tree. Raw token text is kept for
// numbers and strings so that layouts can be re-created from the raw tokens.
type JV struct {
	Kind byte    // 'n' null, 't' true, 'f' false, '#' number, 's' string, '[' array, '{' object
	Raw  string  // raw text of a scalar token (numbers, strings incl. quotes, literals)
	Str  string  // decoded string value
	Arr  []JV    // array elements
	Obj  []JPair // members in document order, duplicates kept
}

type JPair struct {
	RawKey string
	Key    string
	Val    JV
}

// ScanInfo reports features the strict scanner saw.
type ScanInfo struct {
	LoneSurrogate bool
	End           int // offset just after the root value (before trailing whitespace)
}

type jscanner struct {
	s    string
	i    int
	info ScanInfo
	deep int
}

// ScanJSON parses exactly one RFC 8259 JSON text (any root value) and nothing
// else but insignificant whitespace. It is deliberately independent of the
// library under test and of encoding/json.
func ScanJSON(s string) (JV, ScanInfo, error) {
	if !utf8.ValidString(s) {
		return JV{}, ScanInfo{}, fmt.Errorf("strict scanner: input is not valid UTF-8")
	}
	sc := &jscanner{s: s}
	sc.ws()
	v, err := sc.value()
	if err != nil {
		return JV{}, sc.info, err
	}
	sc.info.End = sc.i
	sc.ws()
	if sc.i != len(s) {
		return JV{}, sc.info, fmt.Errorf("strict scanner: trailing data at offset %d: %q", sc.i, clip(s[sc.i:], 20))
	}
	return v, sc.info, nil
}

func clip(s string, n int) string {
	if len(s) > n {
		return s[:n] + "…"
	}
	return s
}

func (sc *jscanner) ws() {
	for sc.i < len(sc.s) {
		switch sc.s[sc.i] {
		case ' ', '\t', '\n', '\r':
			sc.i++
		default:
			return
		}
	}
}

func (sc *jscanner) fail(msg string) error {
	return fmt.Errorf("strict scanner: %s at offset %d (near %q)", msg, sc.i, clip(sc.s[min(sc.i, len(sc.s)):], 16))
}

func (sc *jscanner) value() (JV, error) {
	if sc.i >= len(sc.s) {
		return JV{}, sc.fail("unexpected end of input")
	}
	switch c := sc.s[sc.i]; {
	case c == '{':
		return sc.object()
	case c == '[':
		return sc.array()
	case c == '"':
		raw, str, err := sc.str()
		if err != nil {
			return JV{}, err
		}
		return JV{Kind: 's', Raw: raw, Str: str}, nil
	case c == '-' || (c >= '0' && c <= '9'):
		return sc.number()
	case strings.HasPrefix(sc.s[sc.i:], "null"):
		sc.i += 4
		return JV{Kind: 'n', Raw: "null"}, nil
	case strings.HasPrefix(sc.s[sc.i:], "true"):
		sc.i += 4
		return JV{Kind: 't', Raw: "true"}, nil
	case strings.HasPrefix(sc.s[sc.i:], "false"):
		sc.i += 5
		return JV{Kind: 'f', Raw: "false"}, nil
	}
	return JV{}, sc.fail("unexpected character")
}

func (sc *jscanner) array() (JV, error) {
	sc.deep++
	defer func() { sc.deep-- }()
	if sc.deep > 20000 {
		return JV{}, sc.fail("nesting too deep for the reference scanner")
	}
	sc.i++ // [
	out := JV{Kind: '['}
	sc.ws()
	if sc.i < len(sc.s) && sc.s[sc.i] == ']' {
		sc.i++
		return out, nil
	}
	for {
		sc.ws()
		v, err := sc.value()
		if err != nil {
			return JV{}, err
		}
		out.Arr = append(out.Arr, v)
		sc.ws()
		if sc.i >= len(sc.s) {
			return JV{}, sc.fail("unterminated array")
		}
		if sc.s[sc.i] == ',' {
			sc.i++
			continue
		}
		if sc.s[sc.i] == ']' {
			sc.i++
			return out, nil
		}
		return JV{}, sc.fail("expected ',' or ']'")
	}
}

func (sc *jscanner) object() (JV, error) {
	sc.deep++
	defer func() { sc.deep-- }()
	if sc.deep > 20000 {
		return JV{}, sc.fail("nesting too deep for the reference scanner")
	}
	sc.i++ // {
	out := JV{Kind: '{'}
	sc.ws()
	if sc.i < len(sc.s) && sc.s[sc.i] == '}' {
		sc.i++
		return out, nil
	}
	for {
		sc.ws()
		if sc.i >= len(sc.s) || sc.s[sc.i] != '"' {
			return JV{}, sc.fail("expected string key")
		}
		raw, key, err := sc.str()
		if err != nil {
			return JV{}, err
		}
		sc.ws()
		if sc.i >= len(sc.s) || sc.s[sc.i] != ':' {
			return JV{}, sc.fail("expected ':'")
		}
		sc.i++
		sc.ws()
		v, err := sc.value()
		if err != nil {
			return JV{}, err
		}
		out.Obj = append(out.Obj, JPair{RawKey: raw, Key: key, Val: v})
		sc.ws()
		if sc.i >= len(sc.s) {
			return JV{}, sc.fail("unterminated object")
		}
		if sc.s[sc.i] == ',' {
			sc.i++
			continue
		}
		if sc.s[sc.i] == '}' {
			sc.i++
			return out, nil
		}
		return JV{}, sc.fail("expected ',' or '}'")
	}
}

func hexVal(c byte) int {
	switch {
	case c >= '0' && c <= '9':
		return int(c - '0')
	case c >= 'a' && c <= 'f':
		return int(c-'a') + 10
	case c >= 'A' && c <= 'F':
		return int(c-'A') + 10
	}
	return -1
}

func (sc *jscanner) hex4() (rune, bool) {
	if sc.i+4 > len(sc.s) {
		return 0, false
	}
	var r rune
	for k := 0; k < 4; k++ {
		h := hexVal(sc.s[sc.i+k])
		if h < 0 {
			return 0, false
		}
		r = r<<4 | rune(h)
	}
	sc.i += 4
	return r, true
}

func (sc *jscanner) str() (raw, val string, err error) {
	start := sc.i
	sc.i++ // opening quote
	var sb strings.Builder
	for {
		if sc.i >= len(sc.s) {
			return "", "", sc.fail("unterminated string")
		}
		c := sc.s[sc.i]
		switch {
		case c == '"':
			sc.i++
			return sc.s[start:sc.i], sb.String(), nil
		case c < 0x20:
			return "", "", sc.fail("raw control character in string")
		case c == '\\':
			sc.i++
			if sc.i >= len(sc.s) {
				return "", "", sc.fail("unterminated escape")
			}
			e := sc.s[sc.i]
			sc.i++
			switch e {
			case '"':
				sb.WriteByte('"')
			case '\\':
				sb.WriteByte('\\')
			case '/':
				sb.WriteByte('/')
			case 'b':
				sb.WriteByte('\b')
			case 'f':
				sb.WriteByte('\f')
			case 'n':
				sb.WriteByte('\n')
			case 'r':
				sb.WriteByte('\r')
			case 't':
				sb.WriteByte('\t')
			case 'u':
				r, ok := sc.hex4()
				if !ok {
					return "", "", sc.fail("bad \\u escape")
				}
				if r >= 0xd800 && r <= 0xdbff {
					// high surrogate: needs \uDC00-\uDFFF right after
					save := sc.i
					if sc.i+2 <= len(sc.s) && sc.s[sc.i] == '\\' && sc.s[sc.i+1] == 'u' {
						sc.i += 2
						r2, ok2 := sc.hex4()
						if ok2 && r2 >= 0xdc00 && r2 <= 0xdfff {
							sb.WriteRune(0x10000 + (r-0xd800)<<10 + (r2 - 0xdc00))
							continue
						}
					}
					sc.i = save
					sc.info.LoneSurrogate = true
					sb.WriteRune(0xfffd)
				} else if r >= 0xdc00 && r <= 0xdfff {
					sc.info.LoneSurrogate = true
					sb.WriteRune(0xfffd)
				} else {
					sb.WriteRune(r)
				}
			default:
				sc.i--
				return "", "", sc.fail("invalid escape")
			}
		default:
			// copy one UTF-8 sequence (input validated up front)
			_, size := utf8.DecodeRuneInString(sc.s[sc.i:])
			sb.WriteString(sc.s[sc.i : sc.i+size])
			sc.i += size
		}
	}
}

func (sc *jscanner) number() (JV, error) {
	start := sc.i
	if sc.s[sc.i] == '-' {
		sc.i++
	}
	if sc.i >= len(sc.s) {
		return JV{}, sc.fail("lone minus")
	}
	if sc.s[sc.i] == '0' {
		sc.i++
	} else if sc.s[sc.i] >= '1' && sc.s[sc.i] <= '9' {
		for sc.i < len(sc.s) && sc.s[sc.i] >= '0' && sc.s[sc.i] <= '9' {
			sc.i++
		}
	} else {
		return JV{}, sc.fail("bad number")
	}
	if sc.i < len(sc.s) && sc.s[sc.i] == '.' {
		sc.i++
		n := 0
		for sc.i < len(sc.s) && sc.s[sc.i] >= '0' && sc.s[sc.i] <= '9' {
			sc.i++
			n++
		}
		if n == 0 {
			return JV{}, sc.fail("fraction without digits")
		}
	}
	if sc.i < len(sc.s) && (sc.s[sc.i] == 'e' || sc.s[sc.i] == 'E') {
		sc.i++
		if sc.i < len(sc.s) && (sc.s[sc.i] == '+' || sc.s[sc.i] == '-') {
			sc.i++
		}
		n := 0
		for sc.i < len(sc.s) && sc.s[sc.i] >= '0' && sc.s[sc.i] <= '9' {
			sc.i++
			n++
		}
		if n == 0 {
			return JV{}, sc.fail("exponent without digits")
		}
	}
	return JV{Kind: '#', Raw: sc.s[start:sc.i]}, nil
}

// NumberIsIntegral reports whether a JSON number literal has neither fraction
// nor exponent.
func NumberIsIntegral(raw string) bool {
	return !strings.ContainsAny(raw, ".eE")
}

// ExpectNumber gives the value the property C03 demands for a number literal:
// integral literal fitting the platform int -> int, else correctly rounded float64.
func ExpectNumber(raw string) (V, error) {
	if NumberIsIntegral(raw) {
		if i, err := strconv.ParseInt(raw, 10, strconv.IntSize); err == nil {
			return VInt(int(i)), nil
		}
	}
	f, err := strconv.ParseFloat(raw, 64)
	if err != nil || math.IsInf(f, 0) {
		return V{}, fmt.Errorf("number %q outside float64 range", clip(raw, 40))
	}
	return VFloat(f), nil
}

// JVToV converts a token tree into a value tree (numbers per ExpectNumber,
// duplicate keys: last wins, key order = order of last occurrence's first position).
func JVToV(j JV) (V, error) {
	switch j.Kind {
	case 'n':
		return VNil(), nil
	case 't':
		return VBool(true), nil
	case 'f':
		return VBool(false), nil
	case 's':
		return VStr(j.Str), nil
	case '#':
		return ExpectNumber(j.Raw)
	case '[':
		out := V{K: KList, L: make([]V, 0, len(j.Arr))}
		for _, e := range j.Arr {
			v, err := JVToV(e)
			if err != nil {
				return V{}, err
			}
			out.L = append(out.L, v)
		}
		return out, nil
	case '{':
		out := V{K: KObject}
		idx := map[string]int{}
		for _, p := range j.Obj {
			v, err := JVToV(p.Val)
			if err != nil {
				return V{}, err
			}
			if k, ok := idx[p.Key]; ok {
				out.O[k].V = v
			} else {
				idx[p.Key] = len(out.O)
				out.O = append(out.O, Pair{p.Key, v})
			}
		}
		return out, nil
	}
	return V{}, fmt.Errorf("bad token kind %q", j.Kind)
}

// HasDuplicateKeys reports whether any object in the token tree repeats a key.
func (j JV) HasDuplicateKeys() bool {
	switch j.Kind {
	case '[':
		for _, e := range j.Arr {
			if e.HasDuplicateKeys() {
				return true
			}
		}
	case '{':
		seen := map[string]bool{}
		for _, p := range j.Obj {
			if seen[p.Key] || p.Val.HasDuplicateKeys() {
				return true
			}
			seen[p.Key] = true
		}
	}
	return false
}

// StdDecode decodes a JSON text with encoding/json (UseNumber) into a value
// tree using the same number rule; used to cross-check the strict scanner.
func StdDecode(s string) (V, error) {
	dec := json.NewDecoder(strings.NewReader(s))
	dec.UseNumber()
	var x any
	if err := dec.Decode(&x); err != nil {
		return V{}, err
	}
	// nothing but whitespace may follow
	if _, err := dec.Token(); err != io.EOF {
		return V{}, fmt.Errorf("encoding/json: trailing data")
	}
	return stdToV(x)
}

func stdToV(x any) (V, error) {
	switch t := x.(type) {
	case nil:
		return VNil(), nil
	case bool:
		return VBool(t), nil
	case string:
		return VStr(t), nil
	case json.Number:
		return ExpectNumber(string(t))
	case []any:
		out := V{K: KList, L: make([]V, 0, len(t))}
		for _, e := range t {
			v, err := stdToV(e)
			if err != nil {
				return V{}, err
			}
			out.L = append(out.L, v)
		}
		return out, nil
	case map[string]any:
		out := V{K: KObject}
		for k, e := range t {
			v, err := stdToV(e)
			if err != nil {
				return V{}, err
			}
			out.O = append(out.O, Pair{k, v})
		}
		return out, nil
	}
	return V{}, fmt.Errorf("encoding/json produced %T", x)
}

// HarnessBug is returned when two independent references disagree with each
// other; the driver maps it to exit 2, never to a violation.
type HarnessBug struct{ Msg string }

func (h *HarnessBug) Error() string { return "HARNESS-BUG: " + h.Msg }

// CrossCheckScan verifies that the strict scanner and encoding/json agree on a
// text that is valid UTF-8. It returns (scanner tree, scanner error); a
// disagreement is a *HarnessBug.
func CrossCheckScan(s string) (JV, ScanInfo, error) {
	j, info, err := ScanJSON(s)
	stdValid := json.Valid([]byte(s))
	if (err == nil) != stdValid {
		if utf8.ValidString(s) {
			return j, info, &HarnessBug{fmt.Sprintf("strict scanner says err=%v but json.Valid=%v for %q", err, stdValid, clip(s, 200))}
		}
	}
	if err != nil {
		return j, info, err
	}
	if !info.LoneSurrogate {
		v1, e1 := JVToV(j)
		v2, e2 := StdDecode(s)
		if (e1 == nil) != (e2 == nil) {
			return j, info, &HarnessBug{fmt.Sprintf("scanner/encoding-json conversion disagree: %v vs %v on %q", e1, e2, clip(s, 200))}
		}
		if e1 == nil && !EqVBits(v1, v2) {
			return j, info, &HarnessBug{fmt.Sprintf("scanner and encoding/json decode %q differently: %s vs %s", clip(s, 200), v1.Show(), v2.Show())}
		}
	}
	return j, info, nil
}

// CompareTokenTree checks that a token tree denotes exactly the value tree v
// (the C02 oracle): same nesting, order, key set without duplicates, identical
// strings, ints exactly, floats to the identical float64.
func CompareTokenTree(j JV, v V, path string) error {
	switch v.K {
	case KNil:
		if j.Kind != 'n' {
			return errf("%s: expected null, text has %s", path, j.describe())
		}
	case KBool:
		want := byte('f')
		if v.B {
			want = 't'
		}
		if j.Kind != want {
			return errf("%s: expected %v, text has %s", path, v.B, j.describe())
		}
	case KString:
		if j.Kind != 's' {
			return errf("%s: expected string %+q, text has %s", path, v.S, j.describe())
		}
		if j.Str != v.S {
			return errf("%s: string differs: want %+q, independent decoder reads %+q (raw %s)", path, v.S, j.Str, clip(j.Raw, 80))
		}
	case KInt:
		if j.Kind != '#' {
			return errf("%s: expected int %d, text has %s", path, v.I, j.describe())
		}
		i, err := strconv.ParseInt(j.Raw, 10, 64)
		if err != nil || i != v.I {
			return errf("%s: int %d written as %q", path, v.I, j.Raw)
		}
	case KFloat:
		if j.Kind != '#' {
			return errf("%s: expected float %s, text has %s", path, fmtG(v.Float()), j.describe())
		}
		f, err := strconv.ParseFloat(j.Raw, 64)
		if err != nil || math.Float64bits(f) != v.F {
			// "the identical float64": bit for bit, so the sign of zero counts
			return errf("%s: float %s written as %q (reads back as %v, err %v)", path, fmtG(v.Float()), j.Raw, f, err)
		}
	case KList:
		if j.Kind != '[' {
			return errf("%s: expected array, text has %s", path, j.describe())
		}
		if len(j.Arr) != len(v.L) {
			return errf("%s: array length %d, expected %d", path, len(j.Arr), len(v.L))
		}
		for i := range v.L {
			if err := CompareTokenTree(j.Arr[i], v.L[i], fmt.Sprintf("%s[%d]", path, i)); err != nil {
				return err
			}
		}
	case KObject:
		if j.Kind != '{' {
			return errf("%s: expected object, text has %s", path, j.describe())
		}
		if len(j.Obj) != len(v.O) {
			return errf("%s: object has %d members, expected %d", path, len(j.Obj), len(v.O))
		}
		seen := map[string]bool{}
		for _, p := range j.Obj {
			if seen[p.Key] {
				return errf("%s: key %+q written twice", path, p.Key)
			}
			seen[p.Key] = true
			want, ok := v.Field(p.Key)
			if !ok {
				return errf("%s: text has key %+q (raw %s) that the container does not have", path, p.Key, clip(p.RawKey, 80))
			}
			if err := CompareTokenTree(p.Val, want, fmt.Sprintf("%s[%+q]", path, p.Key)); err != nil {
				return err
			}
		}
	}
	return nil
}

func (j JV) describe() string {
	switch j.Kind {
	case '[':
		return "an array"
	case '{':
		return "an object"
	}
	return "token " + clip(j.Raw, 40)
}

// CanonicalLayout re-lays a token tree from its raw tokens the way
// json.Indent-style canonical indentation does: one element per line, indent
// spaces per level, "key": value, empty containers on one line.
func CanonicalLayout(j JV, indent int) string {
	var b bytes.Buffer
	layout(&b, j, indent, 0)
	return b.String()
}

func layout(b *bytes.Buffer, j JV, indent, level int) {
	nl := func(lv int) {
		b.WriteByte('\n')
		for i := 0; i < indent*lv; i++ {
			b.WriteByte(' ')
		}
	}
	switch j.Kind {
	case '[':
		if len(j.Arr) == 0 {
			b.WriteString("[]")
			return
		}
		b.WriteByte('[')
		for i, e := range j.Arr {
			if i > 0 {
				b.WriteByte(',')
			}
			nl(level + 1)
			layout(b, e, indent, level+1)
		}
		nl(level)
		b.WriteByte(']')
	case '{':
		if len(j.Obj) == 0 {
			b.WriteString("{}")
			return
		}
		b.WriteByte('{')
		for i, p := range j.Obj {
			if i > 0 {
				b.WriteByte(',')
			}
			nl(level + 1)
			b.WriteString(p.RawKey)
			b.WriteString(": ")
			layout(b, p.Val, indent, level+1)
		}
		nl(level)
		b.WriteByte('}')
	default:
		b.WriteString(j.Raw)
	}
}

// RenderJSON writes a value tree as compact JSON in pair order. It is the
// harness's own deterministic serializer, used inside generators so that a
// generated case never depends on the library's (random) object order.
func RenderJSON(v V) string {
	var sb strings.Builder
	renderJSON(&sb, v)
	return sb.String()
}

func renderJSONString(sb *strings.Builder, s string) {
	sb.WriteByte('"')
	for _, r := range s {
		switch {
		case r == '"' || r == '\\':
			sb.WriteByte('\\')
			sb.WriteRune(r)
		case r < 0x20:
			fmt.Fprintf(sb, `\u%04x`, r)
		default:
			sb.WriteRune(r)
		}
	}
	sb.WriteByte('"')
}

func renderJSON(sb *strings.Builder, v V) {
	switch v.K {
	case KNil:
		sb.WriteString("null")
	case KBool:
		sb.WriteString(strconv.FormatBool(v.B))
	case KInt:
		sb.WriteString(strconv.FormatInt(v.I, 10))
	case KFloat:
		s := strconv.FormatFloat(v.Float(), 'g', -1, 64)
		if !strings.ContainsAny(s, ".e") {
			s += ".0"
		}
		sb.WriteString(s)
	case KString:
		renderJSONString(sb, v.S)
	case KList:
		sb.WriteByte('[')
		for i, e := range v.L {
			if i > 0 {
				sb.WriteByte(',')
			}
			renderJSON(sb, e)
		}
		sb.WriteByte(']')
	case KObject:
		sb.WriteByte('{')
		for i, p := range v.O {
			if i > 0 {
				sb.WriteByte(',')
			}
			renderJSONString(sb, p.K)
			sb.WriteByte(':')
			renderJSON(sb, p.V)
		}
		sb.WriteByte('}')
	}
}
