package harness

import (
	"strconv"
	"strings"

	at "github.com/DanielSvub/anytype"
	"pgregory.net/rapid"
)

// C16: FormatString is a lossless, canonically indented re-layout of String.

type C16Case struct {
	Root   V   `json:"root"`
	Indent int `json:"indent"`
	// Muts: mutations of (nested) containers after the first call; FormatString is then called again
	Muts []CloneMut `json:"muts,omitempty"`
	// Share: the root holds the same non-empty container content twice and is built with ONE instance at
	// both places (an acyclic structure in which a container is reachable along two paths)
	Share bool `json:"share,omitempty"`
	// Parsed: when set, the container is obtained by parsing this text (lenient spellings, see C02) instead
	// of being built from Root; skipped if the library rejects the text
	Parsed string `json:"parsed,omitempty"`
	// Route != 0: built through the construction routes of BuildVariant (see C01Case)
	Route int `json:"route,omitempty"`
}

func GenC16(t *rapid.T) *C16Case {
	ind := []int{-3, -1, -1, 0, 0, 1, 2, 2, 3, 4, 4, 5, 6, 7, 8, 9, 10, 10, 11, 11, 14, -1000, 1 << 40}[drawInt(t, 0, 22, "indent")]
	if oneIn(t, 12, "parsed") {
		return &C16Case{Root: VList(), Indent: ind, Parsed: genLenientText(t)}
	}
	c := &C16Case{Root: genTreeCase(t), Indent: ind}
	if oneIn(t, 8, "share") {
		c.Root, c.Share = withSharedChild(t, c.Root)
	}
	c.Route = genRoute(t, c.Share)
	if oneIn(t, 4, "remutate") {
		c.Muts = genNestedMuts(t)
	}
	return c
}

func formatOf(c any, n int) string {
	switch x := c.(type) {
	case at.List:
		return x.FormatString(n)
	case at.Object:
		return x.FormatString(n)
	}
	return ""
}

// verifyFormat checks one FormatString(indent) call (indent inside 0..10) against the expected tree.
func verifyFormat(orig any, root V, indent int) error {
	var out string
	if p, panicked := catch(func() { out = formatOf(orig, indent) }); panicked {
		return errf("FormatString(%d) panicked: %v on %s", indent, p, root.Show())
	}
	if out == "" {
		return errf("FormatString(%d) returned the empty string for %s (String() = %s)", indent, root.Show(), clip(stringOf(orig), 200))
	}
	j, _, err := CrossCheckScan(out)
	if err != nil {
		if hb, ok := err.(*HarnessBug); ok {
			return hb
		}
		return errf("FormatString(%d) is not valid JSON: %v\n tree: %s\n out: %q", indent, err, root.Show(), clip(out, 300))
	}
	if err := CompareTokenTree(j, root, "$"); err != nil {
		return errf("FormatString(%d) denotes different data: %v\n tree: %s\n out: %q", indent, err, root.Show(), clip(out, 300))
	}
	canon := CanonicalLayout(j, indent)
	if canon != out {
		return errf("FormatString(%d) is not the canonical layout of its own tokens:\n got:  %q\n want: %q", indent, clip(out, 400), clip(canon, 400))
	}
	// a re-layout of String(): the same tokens, byte for byte (object members matched by key)
	js, _, err := CrossCheckScan(stringOf(orig))
	if err == nil {
		if err := CompareTokenTree(js, root, "$"); err != nil {
			return errf("String() differs from the tree (see C02): %v", err)
		}
		if err := sameRawTokens(j, js, "$"); err != nil {
			return errf("FormatString(%d) is not a re-layout of String(): %v\n String():       %s\n FormatString(): %q", indent, err, clip(stringOf(orig), 300), clip(out, 300))
		}
	}
	// and the library itself reads it back as the same container, kinds included
	back, perr := parseRoot(root.K, out)
	if perr != nil || back == nil {
		return errf("the library's own parser rejects FormatString(%d) output: %v: %q", indent, perr, clip(out, 300))
	}
	bs, serr := Snap(back)
	if serr != nil {
		return serr
	}
	if !EqV(bs, root) {
		return errf("FormatString(%d) does not denote the same data as String(): parsed back it is %s, the container holds %s", indent, bs.Show(), root.Show())
	}
	return nil
}

func CheckC16(c *C16Case, st *Stats) error {
	root := c.Root
	if root.K != KList && root.K != KObject {
		return nil
	}
	orig := buildMaybeShared(root, c.Share, c.Route)
	if c.Share {
		st.Count("shared_instance")
	}
	if c.Parsed != "" {
		out, gerr := guarded("parse", func() (any, error) {
			if strings.HasPrefix(c.Parsed, "[") {
				l, e := at.ParseList(c.Parsed)
				if l == nil {
					return nil, e
				}
				return l, e
			}
			o, e := at.ParseObject(c.Parsed)
			if o == nil {
				return nil, e
			}
			return o, e
		})
		if gerr != nil || out.c == nil || out.err != nil {
			st.Count("parsed_route.rejected")
			return nil
		}
		snap, err := Snap(out.c)
		if err != nil {
			return err
		}
		orig, root = out.c, snap
		st.Count("parsed_route.accepted")
	}
	before, err := TakeIdentSnap(orig)
	if err != nil {
		return err
	}
	unchanged := func(what string) error {
		after, err := TakeIdentSnap(orig)
		if err != nil {
			return err
		}
		if !before.Same(after) {
			return errf("%s modified the container: %s -> %s", what, before.Tree.Show(), after.Tree.Show())
		}
		return nil
	}
	if c.Indent < 0 || c.Indent > 10 {
		st.Count("indent.outside")
		st.MarkNonTrivial()
		var out string
		_, panicked := catch(func() { out = formatOf(orig, c.Indent) })
		if !panicked {
			return errf("FormatString(%d) did not panic (returned %q)", c.Indent, clip(out, 80))
		}
		return unchanged("a rejected FormatString call")
	}
	st.Count("indent.inside")
	if err := verifyFormat(orig, root, c.Indent); err != nil {
		return err
	}
	hasEmpty, needsEscape := false, false
	root.Walk(func(n V, key *string, depth int) {
		if (n.K == KList && len(n.L) == 0) || (n.K == KObject && len(n.O) == 0) {
			hasEmpty = true
		}
		if n.K == KString && hardString(n.S) {
			needsEscape = true
		}
		if key != nil && hardString(*key) {
			needsEscape = true
		}
	})
	if root.Depth() >= 2 && (hasEmpty || needsEscape) {
		st.MarkNonTrivial()
	}
	if hasEmpty {
		st.Count("has.empty_container")
	}
	if needsEscape {
		st.Count("has.escaped_string")
	}
	if err := unchanged("FormatString"); err != nil {
		return err
	}
	// the container changes (also deep inside, through the nested containers' own handles): every later
	// FormatString must describe the container as it is then
	for i, m := range c.Muts {
		ids := Idents(orig)
		target := ids[m.Node%len(ids)]
		var applied bool
		if p, panicked := catch(func() { applied = applyCloneMut(orig, target, m) }); panicked {
			return errf("mutation %d (%s) panicked: %v", i, m.Op, p)
		}
		if !applied {
			continue
		}
		now, err := Snap(orig)
		if err != nil {
			return err
		}
		st.Count("reformat_after." + m.Op)
		if err := verifyFormat(orig, now, c.Indent); err != nil {
			return errf("after a %s on a nested container: %v", m.Op, err)
		}
	}
	return nil
}

func init() {
	Register("C16",
		"rapid-generated value trees (as C02, shared instances, 1001-1500 nesting levels and containers obtained by parsing lenient spellings included) x indent drawn from {-1000,-3,-1,0..10,11,14,2^40} weighted to the boundaries. Inside 0..10 the output must be non-empty, accepted by the strict scanner, denote the generated tree, equal byte-for-byte the canonical layout re-created from its own raw tokens, consist of exactly the raw tokens of String() (members matched by key), and be read back by the library as the same container with the same kinds; outside it must panic; container unchanged. Non-trivial = indent outside the range, or nesting >= 2 with an empty container or a string/key that needs escaping. Distinct = distinct FNV-64a hash of the case JSON. One case in four builds the container through the construction routes of BuildVariant (lists that are results of SubList / Concat, typed-slice origin, ...); long lists and wide objects also hold a few nested containers.",
		GenC16, CheckC16)
}

// sameRawTokens: two token trees consist of the same raw tokens (arrays position by position,
// object members matched by decoded key).
func sameRawTokens(a, b JV, path string) error {
	if a.Kind != b.Kind {
		return errf("%s: token kinds differ (%s vs %s)", path, a.describe(), b.describe())
	}
	switch a.Kind {
	case '[':
		if len(a.Arr) != len(b.Arr) {
			return errf("%s: array lengths differ", path)
		}
		for i := range a.Arr {
			if err := sameRawTokens(a.Arr[i], b.Arr[i], path+"["+strconv.Itoa(i)+"]"); err != nil {
				return err
			}
		}
	case '{':
		if len(a.Obj) != len(b.Obj) {
			return errf("%s: member counts differ", path)
		}
		for _, p := range a.Obj {
			found := false
			for _, q := range b.Obj {
				if q.Key == p.Key {
					found = true
					if q.RawKey != p.RawKey {
						return errf("%s: key %+q is spelled %s in one text and %s in the other", path, p.Key, clip(p.RawKey, 60), clip(q.RawKey, 60))
					}
					if err := sameRawTokens(p.Val, q.Val, path+"."+p.Key); err != nil {
						return err
					}
					break
				}
			}
			if !found {
				return errf("%s: key %+q missing in String()", path, p.Key)
			}
		}
	default:
		if a.Raw != b.Raw {
			return errf("%s: token %s in FormatString, %s in String()", path, clip(a.Raw, 60), clip(b.Raw, 60))
		}
	}
	return nil
}

// genNestedMuts draws 1-3 mutations to apply at drawn (nested) containers.
func genNestedMuts(t *rapid.T) []CloneMut {
	ops := []string{"add", "insert", "replace", "delete", "pop", "clear", "reverse", "set", "unset", "oclear", "noop", "noop", "rekey", "rekey", "clearrefill", "pad", "pad", "mixedsort", "clearrekey"}
	var out []CloneMut
	for i, n := 0, drawInt(t, 1, 3, "nmuts"); i < n; i++ {
		out = append(out, CloneMut{Node: genRaw(t), Op: ops[drawIdx(t, len(ops), "mop")], A: genRaw(t),
			Key: []string{"a", "k", "new key", "é"}[drawIdx(t, 4, "mkey")], V: genValSpec(t, 2)})
	}
	return out
}
