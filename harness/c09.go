package harness

import (
	"fmt"
	"math"
	"reflect"
	"sort"
	"strings"

	at "github.com/DanielSvub/anytype"
	"pgregory.net/rapid"
)

// C09: deriving operations are pure: inputs unchanged, results own their storage.

// ListHistory describes how a list reaches its internal condition (relation
// between length and capacity) before the derivation.
type ListHistory struct {
	Ctor   int       `json:"ctor"` // 0 NewList(vals) 1 NewListFrom([]any) 2 NewListOf(v,n) 3 NewList()+Add one by one 4-7 NewListFrom([]int/[]string/[]float64/[]bool)
	Init   []ValSpec `json:"init"`
	Adds   []ValSpec `json:"adds"`   // Add one by one (growth)
	Insert []int     `json:"insert"` // raw positions for Insert of the int -(i+1)
	Pops   int       `json:"pops"`   // Pop calls at the end
	Dels   []int     `json:"dels"`   // raw indices for Delete calls at the end
	// Bulk > 0: that many more ints are added at the end (results of 257-1025 elements)
	Bulk int `json:"bulk,omitempty"`
	// Derived > 0: the list is a user-defined type embedding a List (Derived levels deep, registered
	// with Init as the README describes) holding this content
	Derived int `json:"derived,omitempty"`
}

type Deriv struct {
	Name string `json:"name"`
	A    int    `json:"a,omitempty"`
	B    int    `json:"b,omitempty"`
	F    int    `json:"f,omitempty"` // callback selector
	// PanicAt > 0: the callback panics on its PanicAt-th invocation (error path: the caller recovers
	// and goes on using the receiver). Never applied to MapAsync, whose callbacks run on other goroutines.
	PanicAt int `json:"panicat,omitempty"`
}

// c09Abort is the value the harness's callbacks panic with.
type c09Abort struct{}

type Mut struct {
	Who  int     `json:"who"` // raw participant selector
	Name string  `json:"name"`
	A    int     `json:"a,omitempty"`
	V    ValSpec `json:"v"`
	Key  string  `json:"key,omitempty"`
}

type C09Case struct {
	ObjectMode bool        `json:"objectmode"`
	Recv       ListHistory `json:"recv"`
	Arg        ListHistory `json:"arg"`
	RecvPairs  []Pair0     `json:"recvpairs,omitempty"`
	ArgPairs   []Pair0     `json:"argpairs,omitempty"`
	Derivs     []Deriv     `json:"derivs"`
	Muts       []Mut       `json:"muts"`
	// Latin1: string values U+0080..U+00FF are stored as single bytes (not valid UTF-8): reading operations
	// such as String() must leave them exactly as they are
	Latin1 bool `json:"latin1,omitempty"`
}

// c09Latin1 is set while a case with Latin1 runs: string values are re-encoded to bytes that are not valid UTF-8.
var c09Latin1 bool

type Pair0 struct {
	K string  `json:"k"`
	V ValSpec `json:"v"`
}

var listDerivs = []string{"Concat", "ConcatSelf", "SubList", "Filter", "FilterInts", "FilterStrings", "FilterFloats", "FilterObjects", "FilterLists",
	"Map", "MapValues", "MapInts", "MapStrings", "MapFloats", "MapBools", "MapObjects", "MapLists", "MapAsync",
	"Slice", "ObjectSlice", "ListSlice", "StringSlice", "BoolSlice", "IntSlice", "FloatSlice",
	"Reduce", "ReduceInts", "ReduceStrings", "ReduceFloats", "String", "FormatString", "Equals", "EqualsTwin", "Contains", "IndexOf"}

var objectDerivs = []string{"Merge", "MergeSelf", "Pluck", "Keys", "Values", "Dict", "Map", "MapValues", "MapInts", "MapStrings", "MapFloats", "MapBools",
	"MapObjects", "MapLists", "MapAsync", "String", "FormatString", "Equals", "EqualsTwin", "Contains"}

var listMuts = []string{"Add", "Insert", "Replace", "Delete", "Pop", "Clear", "Sort", "Reverse"}
var objectMuts = []string{"Set", "Unset", "Clear"}

func genHistory(t *rapid.T, allowEmpty bool) ListHistory {
	h := ListHistory{Ctor: drawInt(t, 0, 3, "ctor")}
	if oneIn(t, 5, "typedorigin") {
		h.Ctor = drawInt(t, 4, 7, "typedctor") // NewListFrom([]int / []string / []float64 / []bool)
	}
	if allowEmpty && oneIn(t, 4, "empty") {
		return h
	}
	h.Init = genVals(t, 0, 5, 1)
	if h.Ctor >= 4 {
		h.Init = genVals(t, 1, 6, 0)
		if drawBool(t, "untouched") {
			return h // a list that has not been modified since it was built from the typed slice
		}
	}
	nadd := []int{0, 1, 2, 3, 4, 5, 7, 8, 9, 15, 16, 17, 31, 33, 40, 63, 64, 65, 100, 129, 256, 257}[drawIdx(t, 22, "nadd")]
	for i := 0; i < nadd; i++ {
		h.Adds = append(h.Adds, genValSpec(t, 1))
	}
	h.Insert = genRawSlice(t, 0, 2)
	if drawBool(t, "shrink") {
		h.Pops = drawInt(t, 0, 3, "pops")
		h.Dels = genRawSlice(t, 0, 2)
	}
	return h
}

func genPairs(t *rapid.T) []Pair0 {
	n := drawInt(t, 0, 5, "npairs")
	var out []Pair0
	for i := 0; i < n; i++ {
		out = append(out, Pair0{K: []string{"a", "b", "c", "d", "", "k.1"}[drawInt(t, 0, 5, "k")], V: genValSpec(t, 1)})
	}
	return out
}

func GenC09(t *rapid.T) *C09Case {
	c := &C09Case{ObjectMode: oneIn(t, 4, "mode"), Latin1: oneIn(t, 5, "latin1")}
	var names []string
	if c.ObjectMode {
		c.RecvPairs, c.ArgPairs = genPairs(t), genPairs(t)
		names = objectDerivs
	} else {
		c.Recv, c.Arg = genHistory(t, false), genHistory(t, true)
		if oneIn(t, 8, "derivedrecv") {
			c.Recv.Derived = drawInt(t, 1, 3, "levels")
		}
		if oneIn(t, 30, "bulk") {
			c.Recv.Bulk = []int{257, 300, 400, 511, 512, 513, 1025}[drawIdx(t, 7, "nbulk")]
		}
		names = listDerivs
	}
	nd := drawInt(t, 1, 2, "nderiv")
	for i := 0; i < nd; i++ {
		d := Deriv{Name: names[drawIdx(t, len(names), "deriv")], A: genRaw(t), B: genRaw(t), F: drawInt(t, 0, 3, "f")}
		if oneIn(t, 5, "cbpanic") {
			d.PanicAt = drawInt(t, 1, 4, "panicat")
		}
		c.Derivs = append(c.Derivs, d)
	}
	nm := drawInt(t, 1, 8, "nmut")
	for i := 0; i < nm; i++ {
		name := listMuts[drawIdx(t, len(listMuts), "lm")]
		if oneIn(t, 4, "om") {
			name = objectMuts[drawIdx(t, len(objectMuts), "omn")]
		}
		c.Muts = append(c.Muts, Mut{Who: drawInt(t, 0, 63, "who"), Name: name, A: genRaw(t), V: genValSpec(t, 0), Key: []string{"a", "b", "zz", "", "n1", "n2", "n3", "n4"}[drawIdx(t, 8, "mk")]})
	}
	return c
}

// scalarOf converts a spec to a Go scalar; container specs become fresh small containers.
func specValue(v ValSpec) any {
	switch v.K {
	case KNil:
		return nil
	case KBool:
		return v.B
	case KInt:
		return int(v.I)
	case KFloat:
		return math.Float64frombits(v.F)
	case KString:
		if c09Latin1 {
			return latin1(v.S)
		}
		return v.S
	case KList:
		return at.NewList(v.Ref, "nested")
	}
	return at.NewObject("nested", v.Ref)
}

func buildFromHistory(h ListHistory) at.List {
	var l at.List
	init := make([]any, len(h.Init))
	for i, s := range h.Init {
		init[i] = specValue(s)
	}
	switch h.Ctor % 8 {
	case 4:
		s := make([]int, len(h.Init))
		for i, v := range h.Init {
			s[i] = int(v.I) + i
		}
		l = at.NewListFrom(s)
	case 5:
		s := make([]string, len(h.Init))
		for i, v := range h.Init {
			s[i] = v.S + string(rune('a'+i))
		}
		l = at.NewListFrom(s)
	case 6:
		s := make([]float64, len(h.Init))
		for i, v := range h.Init {
			s[i] = float64(v.I) + float64(i)/2
		}
		l = at.NewListFrom(s)
	case 7:
		s := make([]bool, len(h.Init))
		for i := range h.Init {
			s[i] = i%2 == 0
		}
		l = at.NewListFrom(s)
	case 0:
		l = at.NewList(init...)
	case 1:
		l = at.NewListFrom(init)
	case 2:
		var v any = 7
		if len(init) > 0 {
			v = init[0]
		}
		l = at.NewListOf(v, len(init))
	default:
		l = at.NewList()
		for _, x := range init {
			l.Add(x)
		}
	}
	for _, s := range h.Adds {
		l.Add(specValue(s))
	}
	for i, raw := range h.Insert {
		l.Insert(raw%(l.Count()+1), -(i + 1))
	}
	for i := 0; i < h.Pops && l.Count() > 0; i++ {
		l.Pop()
	}
	for _, raw := range h.Dels {
		if l.Count() > 0 {
			l.Delete(raw % l.Count())
		}
	}
	for i := 0; i < h.Bulk; i++ {
		l.Add(1000 + i*3)
	}
	if h.Derived > 0 {
		d := newDerivedList(1+(h.Derived-1)%3, true)
		d.Add(l.Slice()...)
		l = d
	}
	return l
}

// participant is anything whose top-level slots must stay independent.
type participant struct {
	name string
	val  any // at.List, at.Object, or a Go slice / map / scalar
}

// slots returns a comparable top-level snapshot: for containers the value (for
// scalars) or identity (for nested containers) per slot.
func slots(x any) any {
	switch v := x.(type) {
	case at.List:
		out := make([]any, v.Count())
		for i := range out {
			out[i] = [2]any{v.TypeOf(i), ownString(v.Get(i))}
		}
		return out
	case at.Object:
		out := map[string]any{}
		for _, k := range sortedKeys(v) {
			out[strings.Clone(k)] = [2]any{v.TypeOf(k), ownString(v.Get(k))}
		}
		if len(out) != v.Count() {
			out["\x00count"] = v.Count()
		}
		return out
	}
	rv := reflect.ValueOf(x)
	if !rv.IsValid() {
		return nil
	}
	switch rv.Kind() {
	case reflect.Slice:
		out := make([]any, rv.Len())
		for i := range out {
			out[i] = ownString(rv.Index(i).Interface())
		}
		return out
	case reflect.Map:
		out := map[string]any{}
		for _, k := range rv.MapKeys() {
			out[strings.Clone(k.String())] = ownString(rv.MapIndex(k).Interface())
		}
		return out
	}
	return ownString(x)
}

// ownString copies the bytes of a string so that a snapshot cannot follow a later change of the
// memory a returned string points into (a result built over a reused buffer).
func ownString(x any) any {
	if s, ok := x.(string); ok {
		return strings.Clone(s)
	}
	return x
}

func slotsEqual(a, b any) bool {
	switch x := a.(type) {
	case []any:
		y, ok := b.([]any)
		if !ok || len(x) != len(y) {
			return false
		}
		for i := range x {
			if !ifaceEq(x[i], y[i]) {
				return false
			}
		}
		return true
	case map[string]any:
		y, ok := b.(map[string]any)
		if !ok || len(x) != len(y) {
			return false
		}
		for k, v := range x {
			w, ok := y[k]
			if !ok || !ifaceEq(v, w) {
				return false
			}
		}
		return true
	}
	return ifaceEq(a, b)
}

// ifaceEq is == on interfaces that never panics; two float64 NaNs count as equal.
func ifaceEq(a, b any) (eq bool) {
	defer func() {
		if recover() != nil {
			eq = false
		}
	}()
	if x, ok := a.(float64); ok && x != x {
		y, ok := b.(float64)
		return ok && y != y // a NaN stays a NaN
	}
	return a == b
}

func showSlots(x any) string { return clip(fmt.Sprintf("%v", x), 300) }

var preds = []func(i int, x any) bool{
	func(i int, x any) bool { return true },
	func(i int, x any) bool { return false },
	func(i int, x any) bool { return i%2 == 0 },
	func(i int, x any) bool {
		switch v := x.(type) {
		case int:
			return v > 0
		case string:
			return v != ""
		case float64:
			return v >= 0
		}
		return true
	},
}

func tag(f int, x any) any {
	switch f % 4 {
	case 0:
		return x
	case 1:
		return fmt.Sprintf("<%v>", scalarText(x))
	case 2:
		return 42
	}
	return nil
}

func scalarText(x any) string {
	switch x.(type) {
	case at.List:
		return "list"
	case at.Object:
		return "object"
	}
	return fmt.Sprint(x)
}

// deriveList applies one derivation to receiver r with argument a.
func deriveList(d Deriv, r, a at.List) any {
	n := r.Count()
	calls, ticks := 0, 0
	next := func() int { calls++; return calls - 1 }
	tick := func() {
		ticks++
		if d.PanicAt > 0 && ticks == d.PanicAt {
			panic(c09Abort{})
		}
	}
	p := preds[d.F%4]
	switch d.Name {
	case "Concat":
		return r.Concat(a)
	case "ConcatSelf":
		return r.Concat(r)
	case "SubList":
		s := d.A % (n + 1)
		e := s + d.B%(n-s+1)
		if e == 0 {
			return r.SubList(s, 0) // end 0 means "to the end"
		}
		return r.SubList(s, e)
	case "Filter":
		return r.Filter(func(x any) bool { tick(); return p(next(), x) })
	case "FilterInts":
		return r.FilterInts(func(x int) bool { tick(); return p(next(), x) })
	case "FilterStrings":
		return r.FilterStrings(func(x string) bool { tick(); return p(next(), x) })
	case "FilterFloats":
		return r.FilterFloats(func(x float64) bool { tick(); return p(next(), x) })
	case "FilterObjects":
		return r.FilterObjects(func(x at.Object) bool { tick(); return p(next(), x) })
	case "FilterLists":
		return r.FilterLists(func(x at.List) bool { tick(); return p(next(), x) })
	case "Map":
		return r.Map(func(i int, x any) any { tick(); return tag(d.F, x) })
	case "MapValues":
		return r.MapValues(func(x any) any { tick(); return tag(d.F, x) })
	case "MapInts":
		return r.MapInts(func(x int) any { tick(); return tag(d.F, x) })
	case "MapStrings":
		return r.MapStrings(func(x string) any { tick(); return tag(d.F, x) })
	case "MapFloats":
		return r.MapFloats(func(x float64) any { tick(); return tag(d.F, x) })
	case "MapBools":
		return r.MapBools(func(x bool) any { tick(); return tag(d.F, x) })
	case "MapObjects":
		return r.MapObjects(func(x at.Object) any { tick(); return tag(d.F, x) })
	case "MapLists":
		return r.MapLists(func(x at.List) any { tick(); return tag(d.F, x) })
	case "MapAsync":
		return r.MapAsync(func(i int, x any) any { return tag(d.F, x) })
	case "Slice":
		return r.Slice()
	case "ObjectSlice":
		return r.ObjectSlice()
	case "ListSlice":
		return r.ListSlice()
	case "StringSlice":
		return r.StringSlice()
	case "BoolSlice":
		return r.BoolSlice()
	case "IntSlice":
		return r.IntSlice()
	case "FloatSlice":
		return r.FloatSlice()
	case "Reduce":
		return r.Reduce(0, func(acc any, x any) any { tick(); return acc.(int) + 1 })
	case "ReduceInts":
		return r.ReduceInts(0, func(acc, x int) int { tick(); return acc*31 + x })
	case "ReduceStrings":
		return r.ReduceStrings("", func(acc, x string) string { tick(); return acc + x })
	case "ReduceFloats":
		return r.ReduceFloats(0, func(acc, x float64) float64 { tick(); return acc + x })
	case "String":
		return r.String()
	case "FormatString":
		return r.FormatString(d.A % 11)
	case "Equals":
		return r.Equals(a)
	case "EqualsTwin":
		// compared with a distinct but structurally equal tree (the comparison reaches every nested container)
		if sv, err := Snap(r); err == nil {
			return r.Equals(Build(sv).(at.List))
		}
		return nil
	case "Contains":
		if n > 0 {
			return r.Contains(r.Get(d.A % n))
		}
		return r.Contains(1)
	case "IndexOf":
		if n > 0 {
			return r.IndexOf(r.Get(d.A % n))
		}
		return r.IndexOf("x")
	}
	return nil
}

func deriveObject(d Deriv, r, a at.Object) any {
	ticks := 0
	tick := func() {
		ticks++
		if d.PanicAt > 0 && ticks == d.PanicAt {
			panic(c09Abort{})
		}
	}
	switch d.Name {
	case "Merge":
		return r.Merge(a)
	case "MergeSelf":
		return r.Merge(r)
	case "Pluck":
		ks := sortedKeys(r)
		var sel []string
		for i := len(ks) - 1; i >= 0; i-- { // descending order: an implementation that sorts its argument shows
			if (d.A>>uint(i))&1 == 1 || d.B%3 == 0 {
				sel = append(sel, ks[i])
			}
		}
		if d.B%5 == 1 {
			// a key the receiver does not have: the pinned Pluck panics; whatever it does, it must not touch the receiver
			sel = append(sel, "no\x00such key")
			var res at.Object
			if _, panicked := catch(func() { res = r.Pluck(sel...) }); panicked {
				return pluckRefused{}
			}
			return res
		}
		given := append([]string{}, sel...)
		res := r.Pluck(sel...)
		for i := range given {
			if sel[i] != given[i] {
				return argumentChanged{fmt.Sprintf("Pluck changed the caller's keys slice: %q -> %q", given, sel)}
			}
		}
		return res
	case "Keys":
		return r.Keys()
	case "Values":
		return r.Values()
	case "Dict":
		return r.Dict()
	case "Map":
		return r.Map(func(k string, x any) any { tick(); return tag(d.F, x) })
	case "MapValues":
		return r.MapValues(func(x any) any { tick(); return tag(d.F, x) })
	case "MapInts":
		return r.MapInts(func(x int) any { tick(); return tag(d.F, x) })
	case "MapStrings":
		return r.MapStrings(func(x string) any { tick(); return tag(d.F, x) })
	case "MapFloats":
		return r.MapFloats(func(x float64) any { tick(); return tag(d.F, x) })
	case "MapBools":
		return r.MapBools(func(x bool) any { tick(); return tag(d.F, x) })
	case "MapObjects":
		return r.MapObjects(func(x at.Object) any { tick(); return tag(d.F, x) })
	case "MapLists":
		return r.MapLists(func(x at.List) any { tick(); return tag(d.F, x) })
	case "MapAsync":
		return r.MapAsync(func(k string, x any) any { return tag(d.F, x) })
	case "String":
		return r.String()
	case "FormatString":
		return r.FormatString(d.A % 11)
	case "Equals":
		return r.Equals(a)
	case "EqualsTwin":
		if sv, err := Snap(r); err == nil {
			return r.Equals(Build(sv).(at.Object))
		}
		return nil
	case "Contains":
		return r.Contains(d.A % 3)
	}
	return nil
}

// pluckRefused: Pluck was given a missing key and panicked (the caller recovered); there is no result.
type pluckRefused struct{}

// argumentChanged is returned by a derivation helper when the call modified a Go value passed to it.
type argumentChanged struct{ what string }

func listInSortDomain(l at.List) bool {
	if l.Count() == 0 {
		return false
	}
	t0 := l.TypeOf(0)
	if t0 != at.TypeString && t0 != at.TypeInt && t0 != at.TypeFloat {
		return false
	}
	for i := 0; i < l.Count(); i++ {
		if l.TypeOf(i) != t0 {
			return false
		}
	}
	return true
}

// applyMut mutates the top level of participant p; returns false if the
// mutation does not apply to that kind of participant (then nothing happened).
func applyMut(p *participant, m Mut) bool {
	v := specValue(m.V)
	switch x := p.val.(type) {
	case at.List:
		n := x.Count()
		switch m.Name {
		case "Add":
			x.Add(v)
		case "Insert":
			x.Insert(m.A%(n+1), v)
		case "Replace":
			if n == 0 {
				return false
			}
			x.Replace(m.A%n, v)
		case "Delete":
			if n == 0 {
				return false
			}
			x.Delete(m.A % n)
		case "Pop":
			if n == 0 {
				return false
			}
			x.Pop()
		case "Clear":
			x.Clear()
		case "Sort":
			if !listInSortDomain(x) {
				return false
			}
			x.Sort()
		case "Reverse":
			x.Reverse()
		default:
			return false
		}
		return true
	case at.Object:
		switch m.Name {
		case "Set":
			x.Set(m.Key, v)
		case "Unset":
			ks := sortedKeys(x)
			if len(ks) == 0 {
				return false
			}
			x.Unset(ks[m.A%len(ks)])
		case "Clear":
			x.Clear()
		default:
			return false
		}
		return true
	}
	rv := reflect.ValueOf(p.val)
	if !rv.IsValid() {
		return false
	}
	switch rv.Kind() {
	case reflect.Slice:
		// element assignment, or append within capacity
		if m.Name == "Add" && rv.Cap() > rv.Len() {
			ext := rv.Slice(0, rv.Len()+1)
			ext.Index(rv.Len()).Set(reflect.Zero(rv.Type().Elem()))
			return true // p.val keeps its length; only hidden capacity was written
		}
		if rv.Len() == 0 {
			return false
		}
		el := rv.Index(m.A % rv.Len())
		nv := reflect.ValueOf(v)
		if rv.Type().Elem().Kind() == reflect.Interface {
			if !nv.IsValid() {
				el.Set(reflect.Zero(rv.Type().Elem()))
			} else if nv.Type().Implements(rv.Type().Elem()) {
				el.Set(nv)
			} else {
				el.Set(reflect.Zero(rv.Type().Elem()))
			}
			return true
		}
		if nv.IsValid() && nv.Type() == rv.Type().Elem() {
			el.Set(nv)
		} else {
			el.Set(reflect.Zero(rv.Type().Elem()))
		}
		return true
	case reflect.Map:
		if m.Name == "Unset" || m.Name == "Delete" {
			ks := rv.MapKeys()
			if len(ks) == 0 {
				return false
			}
			sort.Slice(ks, func(i, j int) bool { return ks[i].String() < ks[j].String() })
			rv.SetMapIndex(ks[m.A%len(ks)], reflect.Value{})
			return true
		}
		rv.SetMapIndex(reflect.ValueOf(m.Key), reflect.ValueOf(&v).Elem())
		return true
	}
	return false
}

func CheckC09(c *C09Case, st *Stats) error {
	if c.Recv.Derived > 0 && !c.ObjectMode {
		// the pinned Concat accepts plain lists as its argument only: a derived receiver is concatenated
		// with the (plain) argument, never with itself
		cc := *c
		cc.Derivs = append([]Deriv{}, c.Derivs...)
		for i := range cc.Derivs {
			if cc.Derivs[i].Name == "ConcatSelf" {
				cc.Derivs[i].Name = "Concat"
			}
		}
		c = &cc
		st.Count("derived_receiver")
	}
	c09Latin1 = c.Latin1
	defer func() { c09Latin1 = false }()
	var parts []*participant
	var r, a any
	if c.ObjectMode {
		ro, ao := at.NewObject(), at.NewObject()
		for _, p := range c.RecvPairs {
			ro.Set(p.K, specValue(p.V))
		}
		for _, p := range c.ArgPairs {
			ao.Set(p.K, specValue(p.V))
		}
		r, a = ro, ao
	} else {
		r, a = buildFromHistory(c.Recv), buildFromHistory(c.Arg)
	}
	if rl, ok := r.(at.List); ok && rl.Count() > 0 {
		switch rl.TypeOf(0) {
		case at.TypeNil, at.TypeBool, at.TypeList, at.TypeObject:
			// Sort refuses such a list (its first element is not sortable): the caller recovers and goes on
			// using the list, which the failed call must have left entirely alone
			before := slots(r)
			if _, panicked := catch(func() { rl.Sort() }); panicked {
				st.Count("failed_sort_first")
				if !slotsEqual(before, slots(r)) {
					return errf("a Sort that panicked changed the list: %s -> %s", showSlots(before), showSlots(slots(r)))
				}
			}
		}
	}
	parts = append(parts, &participant{"receiver", r}, &participant{"argument", a})
	// lookups before anything is derived (whatever they build inside a list belongs to that list alone)
	if err := lookupsConsistent(r, []any{"x", 1}); err != nil {
		return err
	}

	spare := !c.ObjectMode && (c.Recv.Pops > 0 || len(c.Recv.Dels) > 0)
	grown := !c.ObjectMode && len(c.Recv.Adds) > 0
	emptyArg := !c.ObjectMode && a.(at.List).Count() == 0
	derivNames := ""
	abortedAny := false
	for i, d := range c.Derivs {
		beforeR, beforeA := slots(r), slots(a)
		beforeResults := make([]any, len(parts))
		for j, q := range parts {
			beforeResults[j] = slots(q.val)
		}
		var res any
		p, panicked := catch(func() {
			if c.ObjectMode {
				res = deriveObject(d, r.(at.Object), a.(at.Object))
			} else {
				res = deriveList(d, r.(at.List), a.(at.List))
			}
		})
		if _, aborted := p.(c09Abort); panicked && aborted {
			// the callback gave up part-way and the caller recovered: no result, inputs untouched and still usable
			if !slotsEqual(beforeR, slots(r)) {
				return errf("%s aborted by a panicking callback changed its receiver: %s -> %s", d.Name, showSlots(beforeR), showSlots(slots(r)))
			}
			if !slotsEqual(beforeA, slots(a)) {
				return errf("%s aborted by a panicking callback changed its argument: %s -> %s", d.Name, showSlots(beforeA), showSlots(slots(a)))
			}
			st.Count("deriv.aborted_by_callback_panic")
			abortedAny = true
			continue
		}
		if panicked {
			return errf("%s panicked: %v", d.Name, p)
		}
		if ac, ok := res.(argumentChanged); ok {
			return errf("%s", ac.what)
		}
		if _, refused := res.(pluckRefused); refused {
			st.Count("deriv.pluck_missing_key_refused")
			res = nil
		}
		if !slotsEqual(beforeR, slots(r)) {
			return errf("%s changed its receiver: %s -> %s", d.Name, showSlots(beforeR), showSlots(slots(r)))
		}
		if !slotsEqual(beforeA, slots(a)) {
			return errf("%s changed its argument: %s -> %s", d.Name, showSlots(beforeA), showSlots(slots(a)))
		}
		for j, q := range parts[2:] {
			if !slotsEqual(beforeResults[j+2], slots(q.val)) {
				return errf("the later derivation %s changed the earlier %s: %s -> %s", d.Name, q.name, showSlots(beforeResults[j+2]), showSlots(slots(q.val)))
			}
		}
		// a result that IS one of the inputs does not own its storage
		if res != nil {
			switch res.(type) {
			case at.List, at.Object:
				if res == r || res == a {
					return errf("%s returned one of its inputs instead of a new container", d.Name)
				}
				for _, q := range parts[2:] {
					if q.val == res {
						return errf("%s returned the same container as an earlier derivation", d.Name)
					}
				}
			}
		}
		parts = append(parts, &participant{fmt.Sprintf("result%d(%s)", i+1, d.Name), res})
		derivNames += d.Name + ","
		mode := "list."
		if c.ObjectMode {
			mode = "object."
		}
		st.Count("deriv." + mode + d.Name)
		if spare {
			st.Count("deriv.after_pop_or_delete." + d.Name)
		}
		if emptyArg {
			st.Count("deriv.empty_argument." + d.Name)
		}
	}
	mutatedRecvOrResult := false
	for _, m := range c.Muts {
		who := parts[m.Who%len(parts)]
		before := make([]any, len(parts))
		for i, p := range parts {
			before[i] = slots(p.val)
		}
		var applied bool
		p, panicked := catch(func() { applied = applyMut(who, m) })
		if panicked {
			if abortedAny {
				return errf("after a derivation that was aborted by a panicking callback (recovered by the caller), %s on %s panicked: %v", m.Name, who.name, p)
			}
			return errf("mutation %s on %s panicked: %v", m.Name, who.name, p)
		}
		if !applied {
			continue
		}
		st.Count("mut." + m.Name)
		if who != parts[1] {
			mutatedRecvOrResult = true
		}
		for _, p := range parts {
			if _, isList := p.val.(at.List); isList {
				if err := lookupsConsistent(p.val, []any{specValue(m.V)}); err != nil {
					return errf("after [%s] and a later %s on %s, %s: %v", derivNames, m.Name, who.name, p.name, err)
				}
			}
		}
		for i, p := range parts {
			if p == who {
				continue
			}
			if !slotsEqual(before[i], slots(p.val)) {
				return errf("after [%s] a later %s on %s changed %s: %s -> %s\n receiver history: %+v", derivNames, m.Name, who.name, p.name, showSlots(before[i]), showSlots(slots(p.val)), c.Recv)
			}
		}
	}
	if mutatedRecvOrResult && (spare || grown || emptyArg || c.ObjectMode || abortedAny || c.Recv.Ctor >= 4) {
		st.MarkNonTrivial()
	}
	// After this history, every derivation must give what it gives on a freshly built container with
	// the same content (anything memoised inside the receiver would show as a difference).
	rs, err1 := Snap(r)
	as, err2 := Snap(a)
	if err1 != nil || err2 != nil {
		return errf("participants inconsistent after the mutations: %v %v", err1, err2)
	}
	twinR, twinA := Build(rs), Build(as)
	beforeRederive := make([]any, len(parts))
	for j, q := range parts {
		beforeRederive[j] = slots(q.val)
	}
	for _, d := range c.Derivs {
		if d.PanicAt > 0 {
			continue // error path, exercised above
		}
		if d.Name == "IndexOf" || d.Name == "Contains" {
			continue // identity-based: the twin holds distinct copies where the receiver may hold one instance twice
		}
		var got, want any
		p, panicked := catch(func() {
			if c.ObjectMode {
				got = deriveObject(d, r.(at.Object), a.(at.Object))
				want = deriveObject(d, twinR.(at.Object), twinA.(at.Object))
			} else {
				got = deriveList(d, r.(at.List), a.(at.List))
				want = deriveList(d, twinR.(at.List), twinA.(at.List))
			}
		})
		if panicked {
			return errf("%s panicked after the mutation history: %v", d.Name, p)
		}
		if ac, ok := got.(argumentChanged); ok {
			return errf("%s", ac.what)
		}
		if g, w := c09fp(d.Name, got), c09fp(d.Name, want); g != w {
			return errf("after the mutation history %s gives %s, on a freshly built container with the same content it gives %s\n receiver now: %s", d.Name, clip(g, 300), clip(w, 300), rs.Show())
		}
		st.Count("rederived." + d.Name)
		for j, q := range parts {
			if !slotsEqual(beforeRederive[j], slots(q.val)) {
				return errf("deriving %s once more (from the receiver and from an unrelated container with the same content) changed the earlier %s: %s -> %s", d.Name, q.name, showSlots(beforeRederive[j]), showSlots(slots(q.val)))
			}
		}
	}
	return nil
}

// c09fp fingerprints a derivation result by content (order-insensitively where the library's order is random).
func c09fp(name string, x any) string {
	if s, ok := x.(string); ok && (name == "String" || name == "FormatString") {
		return fingerprintText(s)
	}
	return fingerprint(name, x)
}

func init() {
	Register("C09",
		"receiver and argument are built through a drawn history (constructor NewList/NewListFrom/NewListOf/Add-by-Add or, in one case of five, a typed Go slice of ints/strings/floats/bools - half of those lists are then left untouched; 0-129 further Adds crossing capacity boundaries, Inserts, then 0-3 Pops and 0-2 Deletes so that length/capacity relations vary; the argument may be empty), then 1-2 derivations from the same receiver drawn from the full table (Concat incl. self, SubList, 6 Filter*, 9 Map* incl. MapAsync, Slice and the 6 typed slices, 4 Reduce*, String, FormatString, Equals, Contains, IndexOf; for objects Merge incl. self, Pluck, Keys, Values, Dict, 9 Map*, String, FormatString, Equals, Contains), then 1-8 top-level mutations (Add, Insert, Replace, Delete, Pop, Clear, Sort in domain, Reverse, Set, Unset; element assignment / append within capacity / delete for Go slices and maps) on any participant; one derivation in five has a callback that panics on its 1st-4th invocation (the harness recovers, as a caller would), after which inputs must be unchanged and every later mutation must still work. Oracle: top-level slot snapshots (scalar value or identity of the nested container per slot) of receiver and argument are unchanged by the derivation, and after every mutation every other participant's snapshot is unchanged; snapshots own their string bytes, and every later derivation (the second one, and the repeated ones at the end, also from an unrelated container) must leave every earlier result as it was. Non-trivial = at least one mutation of the receiver or a result after a derivation from a receiver with Pop/Delete or growth history or typed-slice origin, or with an empty argument, or in object mode. Distinct = distinct FNV-64a hash of the case JSON. One list receiver in eight is a user-defined type embedding a List (1-3 levels, registered with Init; ConcatSelf is then Concat with the plain argument, the only argument kind the pinned Concat accepts); one in thirty has 257-1025 further elements, so that typed Map*/Filter* results have 257-1025 elements. A receiver whose first element is nil / bool / a container first gets a Sort that is refused (the caller recovers; the list must be unchanged).",
		GenC09, CheckC09)
}
