package harness

import (
	"fmt"
	"math"
	"reflect"
	"sort"

	at "github.com/DanielSvub/anytype"
	"pgregory.net/rapid"
)

// C13: native conversions are faithful, recursive and never aliased with the container.

type NativeMod struct {
	Party int    `json:"party"` // 0 container, 1 native export, 2 one-level export (Dict/Slice), 3 source
	Node  int    `json:"node"`  // raw selector of the nested node to modify
	Op    string `json:"op"`    // "set", "delete"
	A     int    `json:"a,omitempty"`
}

type C13Case struct {
	Tree    V           `json:"tree"`
	Flavour int         `json:"flavour"` // bit mask steering typed flavours in the source
	Mods    []NativeMod `json:"mods"`
	// Share: the container is built with Add/Set and the nested container selected by ShareFrom is
	// additionally stored inside the one selected by ShareInto (same instance at two positions)
	Share     bool `json:"share,omitempty"`
	ShareFrom int  `json:"sharefrom,omitempty"`
	ShareInto int  `json:"shareinto,omitempty"`
	// Typed: additionally a source of a typed container flavour ([]Object, []List, map[string]Object,
	// map[string]List) is converted; its entries are containers or nil interface values
	Typed *TypedSrc `json:"typed,omitempty"`
	// Reslice > 0: additionally a source is converted that holds one []any together with a prefix and
	// a suffix re-slice of it (three slice headers over one backing array, cut at Reslice mod (len+1))
	Reslice int `json:"reslice,omitempty"`
	// Latin1: keys and string values are re-encoded at check time so that U+0080..U+00FF become single
	// bytes (Go strings that are not valid UTF-8 are ordinary content for the native conversions)
	Latin1 bool `json:"latin1,omitempty"`
}

type TypedSrc struct {
	Lists   bool     `json:"lists,omitempty"`  // element type List (else Object)
	Map     bool     `json:"map,omitempty"`    // map[string]T (else []T)
	Nested  bool     `json:"nested,omitempty"` // the typed value sits inside a []any / map[string]any
	Entries []V      `json:"entries"`          // KNil, or a container of the element type
	Keys    []string `json:"keys,omitempty"`
}

func GenC13(t *rapid.T) *C13Case {
	cfg := TreeCfg{MaxDepth: 4, MaxWidth: 4, MaxStr: 5, LongLists: true, KeyGen: func(t *rapid.T) string {
		return []string{"a", "b", "c", "", "k.1", "é", ".a", ".a.b", "#0", ".", "caf\u00e9"}[drawIdx(t, 11, "key")]
	}, LeafExtra: func(t *rapid.T) (V, bool) {
		// floats that no JSON text can hold are ordinary content for the native conversions
		if oneIn(t, 25, "nonfinite") {
			return VFloat([]float64{math.Inf(1), math.Inf(-1), math.NaN()}[drawIdx(t, 3, "nf")]), true
		}
		return V{}, false
	}}
	tree := GenRoot(t, cfg)
	if tree.Depth() < 2 && drawBool(t, "deepen") {
		inner := GenChain(t, cfg, 3)
		if tree.K == KList {
			tree.L = append(tree.L, inner)
		} else if _, dup := tree.Field("deep"); !dup {
			tree.O = append(tree.O, Pair{"deep", inner})
		}
	}
	if oneIn(t, 15, "deepchain") {
		chainCfg := cfg
		chainCfg.LongLists = false
		inner := GenChain(t, chainCfg, 70)
		if tree.K == KList {
			tree.L = append(tree.L, inner)
		} else if _, dup := tree.Field("chain"); !dup {
			tree.O = append(tree.O, Pair{"chain", inner})
		}
	}
	c := &C13Case{Tree: tree, Flavour: drawInt(t, 0, 255, "flavour")}
	if oneIn(t, 6, "share") {
		c.Share, c.ShareFrom, c.ShareInto = true, genRaw(t), genRaw(t)
	}
	if oneIn(t, 6, "typedsrc") {
		ts := &TypedSrc{Lists: drawBool(t, "tl"), Map: drawBool(t, "tm"), Nested: oneIn(t, 3, "tn")}
		small := TreeCfg{MaxDepth: 2, MaxWidth: 3, MaxStr: 4, KeyGen: cfg.KeyGen}
		for i, n := 0, drawInt(t, 1, 5, "tcount"); i < n; i++ {
			k := fmt.Sprintf("k%d", i)
			switch {
			case oneIn(t, 3, "tnil"):
				ts.Entries = append(ts.Entries, VNil())
			case ts.Lists:
				ts.Entries = append(ts.Entries, GenListV(t, small, 1))
			default:
				ts.Entries = append(ts.Entries, GenObjectV(t, small, 1))
			}
			ts.Keys = append(ts.Keys, k)
		}
		c.Typed = ts
	}
	if oneIn(t, 8, "reslice") {
		c.Reslice = 1 + genRaw(t)
	}
	c.Latin1 = oneIn(t, 5, "latin1")
	n := drawInt(t, 1, 6, "nmods")
	for i := 0; i < n; i++ {
		c.Mods = append(c.Mods, NativeMod{Party: drawInt(t, 0, 3, "party"), Node: genRaw(t), Op: []string{"set", "delete"}[drawInt(t, 0, 1, "op")], A: genRaw(t)})
	}
	return c
}

// nativeWithFlavours renders the tree as plain Go values, using typed slice /
// map flavours and sized numeric types where the content allows it.
func nativeWithFlavours(v V, flavour int, depth int) any {
	bit := func(i int) bool { return (flavour>>uint((i+depth)%8))&1 == 1 }
	switch v.K {
	case KList:
		homog := Kind(255)
		for i, e := range v.L {
			if i == 0 {
				homog = e.K
			} else if e.K != homog {
				homog = 255
			}
		}
		if bit(0) && len(v.L) > 0 {
			switch homog {
			case KString:
				s := make([]string, len(v.L))
				for i, e := range v.L {
					s[i] = e.S
				}
				return s
			case KBool:
				s := make([]bool, len(v.L))
				for i, e := range v.L {
					s[i] = e.B
				}
				return s
			case KInt:
				s := make([]int, len(v.L))
				for i, e := range v.L {
					s[i] = int(e.I)
				}
				return s
			case KFloat:
				s := make([]float64, len(v.L))
				for i, e := range v.L {
					s[i] = e.Float()
				}
				return s
			}
		}
		if len(v.L) == 0 && bit(1) {
			return []any(nil)
		}
		s := make([]any, 0, len(v.L))
		for _, e := range v.L {
			s = append(s, nativeWithFlavours(e, flavour, depth+1))
		}
		return s
	case KObject:
		homog := Kind(255)
		for i, p := range v.O {
			if i == 0 {
				homog = p.V.K
			} else if p.V.K != homog {
				homog = 255
			}
		}
		if bit(2) && len(v.O) > 0 {
			switch homog {
			case KString:
				m := map[string]string{}
				for _, p := range v.O {
					m[p.K] = p.V.S
				}
				return m
			case KInt:
				m := map[string]int{}
				for _, p := range v.O {
					m[p.K] = int(p.V.I)
				}
				return m
			case KFloat:
				m := map[string]float64{}
				for _, p := range v.O {
					m[p.K] = p.V.Float()
				}
				return m
			case KBool:
				m := map[string]bool{}
				for _, p := range v.O {
					m[p.K] = p.V.B
				}
				return m
			}
		}
		if len(v.O) == 0 && bit(3) {
			return map[string]any(nil)
		}
		m := make(map[string]any, len(v.O))
		for _, p := range v.O {
			m[p.K] = nativeWithFlavours(p.V, flavour, depth+1)
		}
		return m
	case KInt:
		if bit(4) {
			switch {
			case v.I >= -128 && v.I <= 127:
				return int8(v.I)
			case v.I >= 0 && v.I <= 65535:
				return uint16(v.I)
			case v.I >= -(1<<31) && v.I < 1<<31:
				return int32(v.I)
			case v.I >= 1<<31 && v.I < 1<<32:
				return uint32(v.I)
			case v.I >= 1<<32 && bit(6):
				return uint64(v.I)
			case v.I >= 1<<32 && bit(7):
				return uint(v.I)
			}
			return v.I // int64
		}
		return int(v.I)
	case KFloat:
		f := v.Float()
		if bit(5) && float64(float32(f)) == f {
			return float32(f)
		}
		return f
	}
	return Build(v)
}

// normNative converts any plain Go value (typed flavours, sized numbers) into a
// tree by reflection. Containers of the library are reported in foreign.
func normNative(x any, foreign *[]string, path string) V {
	switch t := x.(type) {
	case nil:
		return VNil()
	case at.List, at.Object:
		*foreign = append(*foreign, fmt.Sprintf("%s holds a %T", path, t))
		v, _ := Snap(t)
		return v
	}
	rv := reflect.ValueOf(x)
	switch rv.Kind() {
	case reflect.Bool:
		return VBool(rv.Bool())
	case reflect.String:
		return VStr(rv.String())
	case reflect.Int, reflect.Int8, reflect.Int16, reflect.Int32, reflect.Int64:
		return V{K: KInt, I: rv.Int()}
	case reflect.Uint, reflect.Uint8, reflect.Uint16, reflect.Uint32, reflect.Uint64:
		return V{K: KInt, I: int64(rv.Uint())}
	case reflect.Float32, reflect.Float64:
		return VFloat(rv.Float())
	case reflect.Slice:
		out := V{K: KList}
		for i := 0; i < rv.Len(); i++ {
			out.L = append(out.L, normNative(rv.Index(i).Interface(), foreign, fmt.Sprintf("%s[%d]", path, i)))
		}
		return out
	case reflect.Map:
		out := V{K: KObject}
		keys := rv.MapKeys()
		sort.Slice(keys, func(i, j int) bool { return keys[i].String() < keys[j].String() })
		for _, k := range keys {
			out.O = append(out.O, Pair{k.String(), normNative(rv.MapIndex(k).Interface(), foreign, fmt.Sprintf("%s[%q]", path, k.String()))})
		}
		return out
	}
	*foreign = append(*foreign, fmt.Sprintf("%s holds a %T", path, x))
	return VNil()
}

// nativeNodes lists every map and slice reachable in a plain Go value (pre-order).
func nativeNodes(x any, out *[]reflect.Value) {
	rv := reflect.ValueOf(x)
	if !rv.IsValid() {
		return
	}
	switch rv.Kind() {
	case reflect.Slice:
		*out = append(*out, rv)
		for i := 0; i < rv.Len(); i++ {
			if rv.Index(i).Kind() == reflect.Interface {
				nativeNodes(rv.Index(i).Interface(), out)
			}
		}
	case reflect.Map:
		*out = append(*out, rv)
		keys := rv.MapKeys()
		sort.Slice(keys, func(i, j int) bool { return keys[i].String() < keys[j].String() })
		for _, k := range keys {
			if rv.MapIndex(k).Kind() == reflect.Interface {
				nativeNodes(rv.MapIndex(k).Interface(), out)
			}
		}
	}
}

// mutateNativeNode changes one nested map/slice in place; false if nothing could be changed.
func mutateNativeNode(n reflect.Value, m NativeMod) bool {
	switch n.Kind() {
	case reflect.Slice:
		if n.Len() == 0 {
			return false
		}
		el := n.Index(m.A % n.Len())
		var nv reflect.Value
		switch el.Kind() {
		case reflect.Interface:
			nv = reflect.ValueOf("modified")
		case reflect.String:
			nv = reflect.ValueOf(el.String() + "~")
		case reflect.Bool:
			nv = reflect.ValueOf(!el.Bool())
		case reflect.Int:
			nv = reflect.ValueOf(int(el.Int()) ^ 1)
		case reflect.Float64:
			nv = reflect.ValueOf(el.Float() + 1.5)
		default:
			return false
		}
		el.Set(nv)
		return true
	case reflect.Map:
		if n.IsNil() {
			return false
		}
		keys := n.MapKeys()
		sort.Slice(keys, func(i, j int) bool { return keys[i].String() < keys[j].String() })
		if m.Op == "delete" && len(keys) > 0 {
			n.SetMapIndex(keys[m.A%len(keys)], reflect.Value{})
			return true
		}
		var nv reflect.Value
		switch n.Type().Elem().Kind() {
		case reflect.Interface:
			nv = reflect.ValueOf("modified")
		case reflect.String:
			nv = reflect.ValueOf("modified")
		case reflect.Bool:
			nv = reflect.ValueOf(true)
		case reflect.Int:
			nv = reflect.ValueOf(424242)
		case reflect.Float64:
			nv = reflect.ValueOf(42.5)
		default:
			return false
		}
		n.SetMapIndex(reflect.ValueOf("zz-new"), nv)
		return true
	}
	return false
}

func checkNative(c *C13Case, st *Stats) error {
	tree := c.Tree
	src := nativeWithFlavours(tree, c.Flavour, 0)
	var cont any
	p, panicked := catch(func() {
		if tree.K == KObject {
			cont = at.NewObjectFrom(src)
		} else {
			cont = at.NewListFrom(src)
		}
	})
	if panicked {
		return errf("NewObjectFrom/NewListFrom panicked on a supported native tree: %v\n tree: %s", p, tree.Show())
	}
	contSnap, err := TakeIdentSnap(cont)
	if err != nil {
		return err
	}
	if !EqVBits(contSnap.Tree, tree) {
		return errf("container built from a native tree differs: %s, expected %s", contSnap.Tree.Show(), tree.Show())
	}
	export := func() any {
		if tree.K == KObject {
			return cont.(at.Object).NativeDict()
		}
		return cont.(at.List).NativeSlice()
	}
	oneLevel := func() any {
		if tree.K == KObject {
			return cont.(at.Object).Dict()
		}
		return cont.(at.List).Slice()
	}
	nat := export()
	var foreign []string
	natV := normNative(nat, &foreign, "$")
	if len(foreign) > 0 {
		return errf("NativeDict/NativeSlice result is not plain Go data: %v\n tree: %s", foreign, tree.Show())
	}
	if !EqVBits(natV, tree) {
		return errf("NativeDict/NativeSlice differs from the content: %s, expected %s", natV.Show(), tree.Show())
	}
	// exact Go types of the native export: only map[string]any, []any and canonical scalars
	if bad := nonCanonicalNative(nat, "$"); bad != "" {
		return errf("NativeDict/NativeSlice result contains a non-canonical Go type: %s", bad)
	}
	// a container built directly (Build) gives the same native export
	nat2V := func() V {
		var f []string
		if tree.K == KObject {
			return normNative(BuildObject(tree).NativeDict(), &f, "$")
		}
		return normNative(BuildList(tree).NativeSlice(), &f, "$")
	}()
	if !EqVBits(nat2V, tree) {
		return errf("NativeDict/NativeSlice of a container built with Add/Set differs: %s, expected %s", nat2V.Show(), tree.Show())
	}
	// Dict/Slice: exactly the keys/indices, each entry == what Get returns
	checkOneLevel := func(shallow any) error {
		switch cc := cont.(type) {
		case at.Object:
			d := shallow.(map[string]any)
			if len(d) != cc.Count() {
				return errf("Dict() has %d entries, Count() is %d", len(d), cc.Count())
			}
			for _, k := range sortedKeys(cc) {
				e, ok := d[k]
				if !ok || !ifaceEq(e, cc.Get(k)) {
					return errf("Dict()[%q] = %s (present %v), Get returns %s", k, showAny(e), ok, showAny(cc.Get(k)))
				}
			}
		case at.List:
			s := shallow.([]any)
			if len(s) != cc.Count() {
				return errf("Slice() has %d entries, Count() is %d", len(s), cc.Count())
			}
			for i := range s {
				if !ifaceEq(s[i], cc.Get(i)) {
					return errf("Slice()[%d] = %s, Get returns %s", i, showAny(s[i]), showAny(cc.Get(i)))
				}
			}
		}
		return nil
	}
	shallow := oneLevel()
	if err := checkOneLevel(shallow); err != nil {
		return err
	}

	// ---- non-aliasing: modify one party, all others keep their snapshots ----
	parties := []string{"container", "native export", "Dict/Slice export", "source"}
	snapshot := func(i int) any {
		switch i {
		case 0:
			s, _ := TakeIdentSnap(cont)
			return s
		case 1:
			var f []string
			return normNative(nat, &f, "$")
		case 2:
			return slots(shallow)
		}
		var f []string
		return normNative(src, &f, "$")
	}
	same := func(i int, a, b any) bool {
		switch i {
		case 0:
			return a.(IdentSnap).Same(b.(IdentSnap))
		case 2:
			return slotsEqual(a, b)
		}
		return EqVBits(a.(V), b.(V))
	}
	prev := make([]any, 4)
	for i := range prev {
		prev[i] = snapshot(i)
	}
	applied := 0
	for mi, m := range c.Mods {
		party := m.Party & 3
		ok := false
		pv, panicked := catch(func() {
			switch party {
			case 0:
				ids := Idents(cont)
				op := "set"
				if _, isList := ids[m.Node%len(ids)].(at.List); isList {
					op = []string{"add", "replace", "delete", "insert", "clear"}[m.A%5]
				} else {
					op = []string{"set", "unset", "rekey", "clearrefill", "noop"}[m.A%5]
					if m.Op == "delete" && m.A%5 == 0 {
						op = "unset"
					}
				}
				ok = applyCloneMut(cont, ids[m.Node%len(ids)], CloneMut{Op: op, A: m.A, Key: "zz-new", V: ValSpec{K: KString, S: "modified"}})
			case 1:
				var nodes []reflect.Value
				nativeNodes(nat, &nodes)
				if len(nodes) > 0 {
					ok = mutateNativeNode(nodes[m.Node%len(nodes)], m)
				}
			case 2:
				ok = mutateNativeNode(reflect.ValueOf(shallow), m)
			case 3:
				var nodes []reflect.Value
				nativeNodes(src, &nodes)
				if len(nodes) > 0 {
					ok = mutateNativeNode(nodes[m.Node%len(nodes)], m)
				}
			}
		})
		if panicked {
			return errf("modification %d of the %s panicked: %v", mi, parties[party], pv)
		}
		if !ok {
			continue
		}
		applied++
		st.Count("mod." + parties[party])
		// exports taken NOW must describe the container as it is NOW (a stale or shared cache would show here)
		nowSnap, err := TakeIdentSnap(cont)
		if err != nil {
			return err
		}
		var ff []string
		if fresh := normNative(export(), &ff, "$"); !EqVBits(fresh, nowSnap.Tree) {
			return errf("after modifying the %s a fresh NativeDict/NativeSlice is %s but the container holds %s", parties[party], fresh.Show(), nowSnap.Tree.Show())
		}
		if err := checkOneLevel(oneLevel()); err != nil {
			return errf("after modifying the %s a fresh export is wrong: %v", parties[party], err)
		}
		for q := range parties {
			now := snapshot(q)
			if q == party {
				prev[q] = now
				continue
			}
			if !same(q, prev[q], now) {
				return errf("modifying the %s (mod %d: %+v) changed the %s\n tree: %s\n before: %v\n after:  %v", parties[party], mi, m, parties[q], tree.Show(), showSnap(prev[q]), showSnap(now))
			}
		}
	}
	if tree.Depth() >= 2 && applied > 0 {
		st.MarkNonTrivial()
	}
	return nil
}

func showSnap(x any) string {
	switch s := x.(type) {
	case IdentSnap:
		return s.Tree.Show()
	case V:
		return s.Show()
	}
	return showSlots(x)
}

// nonCanonicalNative reports the first value whose Go type is not one of
// map[string]any, []any, nil, bool, int, float64, string.
func nonCanonicalNative(x any, path string) string {
	switch t := x.(type) {
	case nil, bool, int, float64, string:
		return ""
	case []any:
		if t == nil {
			// an empty List is exported as an empty slice, not as a nil one (they differ under
			// reflect.DeepEqual and encoding/json: [] versus null)
			return fmt.Sprintf("%s is a nil slice", path)
		}
		for i, e := range t {
			if s := nonCanonicalNative(e, fmt.Sprintf("%s[%d]", path, i)); s != "" {
				return s
			}
		}
		return ""
	case map[string]any:
		if t == nil {
			return fmt.Sprintf("%s is a nil map", path)
		}
		for k, e := range t {
			if s := nonCanonicalNative(e, fmt.Sprintf("%s[%q]", path, k)); s != "" {
				return s
			}
		}
		return ""
	}
	return fmt.Sprintf("%s is a %T", path, x)
}

// checkSharedInstance: a container instance stored at two positions must be
// exported (recursively) at both.
func checkSharedInstance(c *C13Case, st *Stats) error {
	cont := Build(c.Tree)
	ids := Idents(cont)
	from, into := ids[c.ShareFrom%len(ids)], ids[c.ShareInto%len(ids)]
	if from == cont || containsIdent(Idents(from), into) {
		return nil // would create a cycle
	}
	switch x := into.(type) {
	case at.List:
		x.Add(from)
	case at.Object:
		x.Set("shared-instance", from)
	}
	st.Count("shared_instance")
	st.MarkNonTrivial()
	want, err := Snap(cont)
	if err != nil {
		return err
	}
	var nat any
	if o, ok := cont.(at.Object); ok {
		nat = o.NativeDict()
	} else {
		nat = cont.(at.List).NativeSlice()
	}
	var foreign []string
	got := normNative(nat, &foreign, "$")
	if len(foreign) > 0 {
		return errf("native export of a tree with a container stored twice is not plain Go data: %v", foreign)
	}
	if !EqVBits(got, want) {
		return errf("native export differs from the content when one container instance is stored at two positions: %s, expected %s", got.Show(), want.Show())
	}
	// every container of the tree is exported on its own (each of the two parents included), then the shared
	// container changes through its own handle, then everything is exported again: each export must
	// describe its container as it is at that time
	exportAll := func(when string) error {
		for i, x := range Idents(cont) {
			want, err := Snap(x)
			if err != nil {
				return err
			}
			var nat any
			if o, ok := x.(at.Object); ok {
				nat = o.NativeDict()
			} else {
				nat = x.(at.List).NativeSlice()
			}
			var foreign []string
			got := normNative(nat, &foreign, "$")
			if len(foreign) > 0 || !EqVBits(got, want) {
				return errf("%s: native export of container %d of a tree with a shared instance is %s, its content is %s %v", when, i, got.Show(), want.Show(), foreign)
			}
		}
		return nil
	}
	if err := exportAll("before the shared container changes"); err != nil {
		return err
	}
	switch x := from.(type) {
	case at.List:
		x.Add("changed after the exports")
	case at.Object:
		x.Set("changed after the exports", 1)
	}
	if err := exportAll("after the shared container was changed through its own handle"); err != nil {
		return err
	}
	switch x := from.(type) {
	case at.List:
		x.Pop()
	case at.Object:
		x.Unset("changed after the exports")
	}
	return exportAll("after the change was undone")
}

// checkTypedSource converts a []Object / []List / map[string]Object / map[string]List source whose
// entries are containers or nil: every non-nil entry is stored by reference, every nil entry becomes a
// nil element, exports are plain data equal to the content, and source and container do not share slots.
func checkTypedSource(ts *TypedSrc, st *Stats) error {
	n := len(ts.Entries)
	if n == 0 {
		return nil
	}
	built := make([]any, n)
	nils := 0
	for i, e := range ts.Entries {
		if e.K != KNil {
			built[i] = Build(e)
		} else {
			nils++
		}
	}
	var src any
	switch {
	case !ts.Map && !ts.Lists:
		s := make([]at.Object, n)
		for i, b := range built {
			if b != nil {
				s[i] = b.(at.Object)
			}
		}
		src = s
	case !ts.Map && ts.Lists:
		s := make([]at.List, n)
		for i, b := range built {
			if b != nil {
				s[i] = b.(at.List)
			}
		}
		src = s
	case ts.Map && !ts.Lists:
		m := map[string]at.Object{}
		for i, b := range built {
			if b != nil {
				m[ts.Keys[i]] = b.(at.Object)
			} else {
				m[ts.Keys[i]] = nil
			}
		}
		src = m
	default:
		m := map[string]at.List{}
		for i, b := range built {
			if b != nil {
				m[ts.Keys[i]] = b.(at.List)
			} else {
				m[ts.Keys[i]] = nil
			}
		}
		src = m
	}
	want := V{K: KList, L: ts.Entries}
	if ts.Map {
		want = V{K: KObject}
		for i, e := range ts.Entries {
			want.O = append(want.O, Pair{ts.Keys[i], e})
		}
	}
	name := fmt.Sprintf("%T", src)
	var cont any
	p, panicked := catch(func() {
		switch {
		case ts.Nested && ts.Map:
			cont = at.NewObjectFrom(map[string]any{"in": src}).Get("in")
		case ts.Nested:
			cont = at.NewListFrom([]any{src}).Get(0)
		case ts.Map:
			cont = at.NewObjectFrom(src)
		default:
			cont = at.NewListFrom(src)
		}
	})
	if panicked {
		return errf("conversion of a %s source with %d nil entries panicked: %v", name, nils, p)
	}
	var nat, shallow any
	var got V
	p, panicked = catch(func() {
		var err error
		if got, err = Snap(cont); err != nil {
			panic(err)
		}
		for i, b := range built {
			var e any
			if ts.Map {
				e = cont.(at.Object).Get(ts.Keys[i])
			} else {
				e = cont.(at.List).Get(i)
			}
			if b != nil && e != b {
				panic(fmt.Sprintf("entry %d is not the identical container that the source holds", i))
			}
			if b == nil && e != nil {
				panic(fmt.Sprintf("entry %d: a nil entry of the source reads back as %s", i, showAny(e)))
			}
		}
		if ts.Map {
			nat, shallow = cont.(at.Object).NativeDict(), cont.(at.Object).Dict()
		} else {
			nat, shallow = cont.(at.List).NativeSlice(), cont.(at.List).Slice()
		}
	})
	if panicked {
		return errf("container built from a %s source with %d nil entries: %v\n expected content %s", name, nils, p, want.Show())
	}
	if !EqVBits(got, want) {
		return errf("container built from a %s source holds %s, expected %s", name, got.Show(), want.Show())
	}
	var foreign []string
	natV := normNative(nat, &foreign, "$")
	if len(foreign) > 0 || !EqVBits(natV, want) || nonCanonicalNative(nat, "$") != "" {
		return errf("native export of a container built from a %s source: %s %v %s, expected plain data %s", name, natV.Show(), foreign, nonCanonicalNative(nat, "$"), want.Show())
	}
	if sl, ok := shallow.([]any); ok {
		for i, e := range sl {
			if !ifaceEq(e, built[i]) {
				return errf("Slice()[%d] of a container built from a %s source is %s", i, name, showAny(e))
			}
		}
		if len(sl) != n {
			return errf("Slice() of a container built from a %s source has %d entries, expected %d", name, len(sl), n)
		}
	} else {
		d := shallow.(map[string]any)
		for i, k := range ts.Keys {
			e, present := d[k]
			if !present || !ifaceEq(e, built[i]) {
				return errf("Dict()[%q] of a container built from a %s source is %s (present %v)", k, name, showAny(e), present)
			}
		}
		if len(d) != n {
			return errf("Dict() of a container built from a %s source has %d entries, expected %d", name, len(d), n)
		}
	}
	// the source and the container do not share top-level slots
	before, _ := TakeIdentSnap(cont)
	rv := reflect.ValueOf(src)
	if ts.Map {
		rv.SetMapIndex(reflect.ValueOf(ts.Keys[0]), reflect.Value{})
		rv.SetMapIndex(reflect.ValueOf("zz-new"), reflect.Zero(rv.Type().Elem()))
	} else {
		last := rv.Index(n - 1).Interface()
		rv.Index(n - 1).Set(rv.Index(0))
		rv.Index(0).Set(reflect.Zero(rv.Type().Elem()))
		_ = last
	}
	after, _ := TakeIdentSnap(cont)
	if !before.Same(after) {
		return errf("modifying the %s source changed the container built from it: %s -> %s", name, before.Tree.Show(), after.Tree.Show())
	}
	st.Count("typed_container_source." + name)
	if nils > 0 {
		st.Count("typed_container_source.with_nil_entries")
	}
	return nil
}

// checkResliced converts sources in which several slice headers share one backing array (a slice, a
// prefix and a suffix of it) and one map occurs twice: every position must get the content of ITS header.
func checkResliced(c *C13Case, st *Stats) error {
	rowsV := c.Tree
	if rowsV.K != KList {
		rowsV = VList(c.Tree, VInt(1), VStr("two"))
	}
	rows, ok := nativeWithFlavours(rowsV, 0, 0).([]any)
	if !ok {
		return nil
	}
	k := (c.Reslice - 1) % (len(rows) + 1)
	head, tail := V{K: KList, L: rowsV.L[:k]}, V{K: KList, L: rowsV.L[k:]}
	shared := map[string]any{"n": 1}
	sharedV := VObj(Pair{"n", VInt(1)})
	wantL := VList(rowsV, head, tail, sharedV, sharedV)
	wantO := VObj(Pair{"all", rowsV}, Pair{"head", head}, Pair{"tail", tail}, Pair{"m1", sharedV}, Pair{"m2", sharedV})
	var gotL, gotO V
	var natL, natO any
	p, panicked := catch(func() {
		l := at.NewListFrom([]any{rows, rows[:k], rows[k:], shared, shared})
		o := at.NewObjectFrom(map[string]any{"all": rows, "head": rows[:k], "tail": rows[k:], "m1": shared, "m2": shared})
		var err error
		if gotL, err = Snap(l); err != nil {
			panic(err)
		}
		if gotO, err = Snap(o); err != nil {
			panic(err)
		}
		natL, natO = l.NativeSlice(), o.NativeDict()
	})
	if panicked {
		return errf("conversion of a source holding a slice together with re-slices of it panicked: %v", p)
	}
	if !EqVBits(gotL, wantL) {
		return errf("NewListFrom([rows, rows[:%d], rows[%d:], m, m]) holds %s, expected %s", k, k, gotL.Show(), wantL.Show())
	}
	if !EqVBits(sortedV(gotO), sortedV(wantO)) {
		return errf("NewObjectFrom({all: rows, head: rows[:%d], tail: rows[%d:], m1: m, m2: m}) holds %s, expected %s", k, k, gotO.Show(), wantO.Show())
	}
	var foreign []string
	if v := normNative(natL, &foreign, "$"); !EqVBits(v, wantL) || len(foreign) > 0 {
		return errf("NativeSlice of a container built from a slice and its re-slices is %s, expected %s", v.Show(), wantL.Show())
	}
	if v := normNative(natO, &foreign, "$"); !EqVBits(sortedV(v), sortedV(wantO)) || len(foreign) > 0 {
		return errf("NativeDict of a container built from a slice and its re-slices is %s, expected %s", v.Show(), wantO.Show())
	}
	st.Count("resliced_source")
	// a source that is refused at first (it holds a value of an unsupported type) and is converted again
	// after the caller repaired it: the second conversion sees an ordinary supported tree
	type notSupported struct{ X int }
	inner := []any{1, notSupported{1}, "z"}
	srcM := map[string]any{"a": inner, "b": map[string]any{"deep": []any{inner}}, "c": 2}
	srcL := []any{srcM, inner}
	for attempt, conv := range []func() any{
		func() any { return at.NewObjectFrom(srcM) }, func() any { return at.NewListFrom(srcL) },
		func() any { return at.NewList().Add(srcM) }, func() any { return at.NewObject().Set("k", srcL) }} {
		if _, panicked := catch(func() { conv() }); !panicked {
			return nil // accepting the unsupported value is C12's business, nothing to check here
		}
		_ = attempt
	}
	inner[1] = "repaired"
	wantInner := VList(VInt(1), VStr("repaired"), VStr("z"))
	wantM := VObj(Pair{"a", wantInner}, Pair{"b", VObj(Pair{"deep", VList(wantInner)})}, Pair{"c", VInt(2)})
	var gotM, gotL2 V
	p, panicked = catch(func() {
		o := at.NewObjectFrom(srcM)
		l := at.NewListFrom(srcL)
		var err error
		if gotM, err = Snap(o); err != nil {
			panic(err)
		}
		if gotL2, err = Snap(l); err != nil {
			panic(err)
		}
	})
	if panicked {
		return errf("a native source that was refused once (it held an unsupported value) is refused again after it was repaired: %v", p)
	}
	if !EqVBits(sortedV(gotM), sortedV(wantM)) || !EqVBits(sortedV(gotL2), sortedV(VList(wantM, wantInner))) {
		return errf("a repaired native source converts to %s / %s, expected %s / %s", gotM.Show(), gotL2.Show(), wantM.Show(), VList(wantM, wantInner).Show())
	}
	st.Count("repaired_source")
	// Go slices spread into variadic calls are sources too: the library must leave them as they are
	elems := []any{1, "two", []any{3.5, nil}, map[string]any{"k": true}, at.NewList(9)}
	pairs := []any{"a", 1, "b", []any{"x"}, "c", map[string]any{"d": nil}}
	keepE, keepP := fmt.Sprintf("%#v", elems[:4]), fmt.Sprintf("%#v", pairs)
	p, panicked = catch(func() {
		at.NewList(elems...)
		at.NewList().Add(elems...)
		at.NewObject(pairs...)
		at.NewObject().Set(pairs...)
	})
	if panicked {
		return errf("building containers from spread slices panicked: %v", p)
	}
	if gotE, gotP := fmt.Sprintf("%#v", elems[:4]), fmt.Sprintf("%#v", pairs); gotE != keepE || gotP != keepP {
		return errf("a Go slice spread into NewList/Add/NewObject/Set was modified by the call: %s -> %s, %s -> %s", keepE, gotE, keepP, gotP)
	}
	st.Count("spread_slices_untouched")
	return nil
}

// checkOneLevelOfInnerLevels: Slice() and Dict() hold exactly what Get returns - also where the host
// stores an INNER embedding level of a derived structure (Get answers with the registered value then).
func checkOneLevelOfInnerLevels(st *Stats) error {
	dl := newDerivedList(2, true, 1, 2).(*DL2)
	do := newDerivedObject(3, false, "a", 1).(*DO3)
	hostL := at.NewList("x", dl.DL1, do.DO2, dl.DL1.List, 7)
	hostO := at.NewObject("l", dl.DL1, "o", do.DO2.DO1, "n", nil)
	sl := hostL.Slice()
	for i := range sl {
		if !ifaceEq(sl[i], hostL.Get(i)) {
			return errf("Slice()[%d] is %T %p, Get(%d) returns %T %p (the host stores an inner embedding level of a derived structure)", i, sl[i], sl[i], i, hostL.Get(i), hostL.Get(i))
		}
	}
	d := hostO.Dict()
	for _, k := range sortedKeys(hostO) {
		if e, ok := d[k]; !ok || !ifaceEq(e, hostO.Get(k)) {
			return errf("Dict()[%q] is %T %p, Get returns %T %p (the host stores an inner embedding level of a derived structure)", k, e, e, hostO.Get(k), hostO.Get(k))
		}
	}
	var foreign []string
	normNative(hostL.NativeSlice(), &foreign, "$")
	normNative(hostO.NativeDict(), &foreign, "$")
	if len(foreign) > 0 {
		return errf("native export of a host storing inner embedding levels is not plain data: %v", foreign)
	}
	st.Count("inner_levels_stored")
	return nil
}

func CheckC13(c *C13Case, st *Stats) error {
	if c.Tree.K != KList && c.Tree.K != KObject {
		return nil
	}
	if c.Latin1 {
		if tr, ok := c.Tree.Latin1All(); ok {
			cc := *c
			cc.Tree = tr
			c = &cc
			st.Count("latin1_strings_and_keys")
		}
	}
	if c.Share {
		if err := checkOneLevelOfInnerLevels(st); err != nil {
			return err
		}
	}
	if c.Reslice > 0 {
		if err := checkResliced(c, st); err != nil {
			return err
		}
	}
	if c.Typed != nil {
		if err := checkTypedSource(c.Typed, st); err != nil {
			return err
		}
	}
	st.Count("root." + c.Tree.K.String())
	if c.Flavour%3 == 0 {
		// the same content reached through other construction routes (Concat, SubList, typed-slice origin, ...)
		cont := BuildVariant(c.Tree, 1+c.Flavour+c.ShareFrom)
		var nat any
		if o, ok := cont.(at.Object); ok {
			nat = o.NativeDict()
		} else {
			nat = cont.(at.List).NativeSlice()
		}
		var foreign []string
		got := normNative(nat, &foreign, "$")
		if len(foreign) > 0 {
			return errf("native export of a container built through other construction routes is not plain Go data: %v\n tree: %s", foreign, c.Tree.Show())
		}
		if !EqVBits(got, c.Tree) {
			return errf("native export of a container built through other construction routes differs: %s, expected %s", got.Show(), c.Tree.Show())
		}
		st.Count("construction_routes")
	}
	if c.Share {
		if err := checkSharedInstance(c, st); err != nil {
			return err
		}
		// the same tree with nested containers that are user-defined derived types
		n := 0
		cont := buildDerived(c.Tree, 1+c.ShareFrom%3, &n, true)
		if n > 0 {
			st.Count("derived_nested")
			want, err := Snap(cont)
			if err != nil {
				return err
			}
			var nat any
			if o, ok := cont.(at.Object); ok {
				nat = o.NativeDict()
			} else {
				nat = cont.(at.List).NativeSlice()
			}
			var foreign []string
			got := normNative(nat, &foreign, "$")
			if len(foreign) > 0 {
				return errf("native export of a tree holding derived containers is not plain Go data: %v", foreign)
			}
			if !EqVBits(got, want) {
				return errf("native export of a tree holding derived containers differs: %s, expected %s", got.Show(), want.Show())
			}
		}
	}
	return checkNative(c, st)
}

func init() {
	Register("C13",
		"native trees of map[string]any / []any / scalars (depth <= 4, empties and nil maps/slices included, floats including NaN and the infinities, keys that start with or contain a sigil, in one case of five all strings and keys re-encoded to bytes that are not valid UTF-8) with typed flavours ([]string, []int, map[string]float64, ...) and sized numbers (int8, uint16, int32, int64, float32) where the content allows; the container is built with NewObjectFrom/NewListFrom; one case in six additionally converts a []Object / []List / map[string]Object / map[string]List source (directly or nested in a []any / map[string]any) whose entries are containers or nil interface values (non-nil entries stored by reference, nil entries become nil elements, exports plain and equal, no shared slots). Oracle: container content == tree; NativeDict/NativeSlice hold only map[string]any, []any and canonical scalars (reflective walk) and equal the tree bit-exactly (also for a container built with Add/Set); Dict()/Slice() have exactly the keys/indices with entries == Get (identity for containers). One case in eight converts a source in which a []any occurs together with a prefix and a suffix re-slice of it (one backing array) and one map occurs twice. Then 1-6 modifications of one of four parties (container at any nested node, including re-keying an object and emptying and refilling it; native export at any nested map/slice; Dict/Slice export; the source map/slice at any nested level): after each, every OTHER party's snapshot is unchanged. After every modification fresh exports must describe the container as it is then. One case in six additionally stores one container instance at two positions, and wraps nested containers in user-defined derived types: the native export must still be plain data equal to the content. Non-trivial = tree depth >= 2 and at least one applied modification, or the shared-instance variant. Distinct = distinct FNV-64a hash of the case JSON. In the shared-instance variant every container of the tree (both parents of the shared one included) is exported on its own, the shared container is changed through its own handle, everything is exported again, the change is undone and everything is exported a third time: each export must describe its container as it is then.",
		GenC13, CheckC13)
}
