package harness

import (
	"strings"
	"unicode/utf8"

	at "github.com/DanielSvub/anytype"
	"pgregory.net/rapid"
)

// C02: String() is standard JSON that an independent decoder reads as the same data.

type C02Case struct {
	Root V `json:"root"`
	// Sweep >= 0 selects the exhaustive code-point sub-generator instead of Root:
	// the container holds "a"+r+"b" as value and as key for the 256 code points
	// starting at Sweep*256.
	Sweep int `json:"sweep"`
	// Muts: mutations of (nested) containers after the first String(); String() is then checked again
	Muts []CloneMut `json:"muts,omitempty"`
	// Parsed: when set, the container is not built from Root but obtained by parsing this text, which
	// spells its values the way the lenient parser tolerates (0x1F, 1_000, +1, .5, 1E5, 1.50, T ...);
	// if the library rejects the text the case is skipped. What String() must describe is the content the
	// container then has (Get / TypeOf), whatever the spelling it was read from.
	Parsed string `json:"parsed,omitempty"`
	// Share: the root holds the same non-empty container content twice and is built with ONE instance at
	// both places (an acyclic structure in which a container is reachable along two paths)
	Share bool `json:"share,omitempty"`
	// Route != 0: built through the construction routes of BuildVariant (see C01Case)
	Route int `json:"route,omitempty"`
}

var lenientSpellings = []string{"0x1F", "0X1f", "0b101", "0o17", "017", "010", "1_000", "+1", ".5", "5.", "1E5", "1e5", "1.50", "1.0", "-0", "-0.0", "0e0",
	"1e+2", "1E+02", "-.5", "+.5", "0x1p4", "00", "-010", "1e05", "100e-2", "2.50e0", "T", "F", "t", "f", "TRUE", "nul", "tru", "1.", "0.10", "1e0", "12", "-7", "\"s\"", "\"\\u0041\"", "\"\\/\""}

func genLenientText(t *rapid.T) string {
	n := drawInt(t, 1, 4, "nitems")
	items := make([]string, n)
	for i := range items {
		items[i] = lenientSpellings[drawIdx(t, len(lenientSpellings), "sp")]
		if oneIn(t, 5, "nest") {
			items[i] = "[" + items[i] + "]"
		}
	}
	if drawBool(t, "asobject") {
		var sb strings.Builder
		sb.WriteByte('{')
		for i, it := range items {
			if i > 0 {
				sb.WriteByte(',')
			}
			sb.WriteString("\"k" + string(rune('0'+i)) + "\":" + it)
		}
		return sb.String() + "}"
	}
	return "[" + strings.Join(items, ",") + "]"
}

func GenC02(t *rapid.T) *C02Case {
	if oneIn(t, 12, "parsed") {
		return &C02Case{Sweep: -1, Root: VList(), Parsed: genLenientText(t)}
	}
	c := &C02Case{Root: genTreeCase(t), Sweep: -1}
	if oneIn(t, 8, "share") {
		c.Root, c.Share = withSharedChild(t, c.Root)
	}
	c.Route = genRoute(t, c.Share)
	if oneIn(t, 5, "remutate") {
		c.Muts = genNestedMuts(t)
	}
	return c
}

// sweepTree builds the tree for one block of 256 code points.
func sweepTree(block int) V {
	list := V{K: KList}
	obj := V{K: KObject}
	for r := rune(block * 256); r < rune(block*256+256); r++ {
		if r > utf8.MaxRune || (r >= 0xd800 && r <= 0xdfff) {
			continue
		}
		s := "a" + string(r) + "b"
		list.L = append(list.L, VStr(s))
		obj.O = append(obj.O, Pair{s, VStr(string(r))})
	}
	return VList(list, obj)
}

const sweepBlocks = (utf8.MaxRune + 1) / 256 // 4352

func checkJSONText(text string, want V, st *Stats) error {
	j, _, err := CrossCheckScan(text)
	if err != nil {
		if hb, ok := err.(*HarnessBug); ok {
			return hb
		}
		return errf("String() is not a valid RFC 8259 JSON text: %v\n tree: %s\n text: %s", err, want.Show(), clip(text, 300))
	}
	if err := CompareTokenTree(j, want, "$"); err != nil {
		return errf("an independent JSON decoder reads String() differently: %v\n tree: %s\n text: %s", err, want.Show(), clip(text, 300))
	}
	return nil
}

func textNonTrivial(text string) bool {
	for i := 0; i < len(text); i++ {
		c := text[i]
		if c == '\\' || c >= 0x80 {
			return true
		}
		if (c == 'e' || c == 'E') && i > 0 && (text[i-1] >= '0' && text[i-1] <= '9') {
			return true
		}
	}
	return false
}

func CheckC02(c *C02Case, st *Stats) error {
	if c.Parsed != "" {
		var cont any
		var perr error
		out, err := guarded("parse", func() (any, error) {
			if strings.HasPrefix(c.Parsed, "[") {
				l, e := at.ParseList(c.Parsed)
				if l == nil {
					return nil, e
				}
				return l, e
			}
			o, e := at.ParseObject(c.Parsed)
			if o == nil {
				return nil, e
			}
			return o, e
		})
		if err != nil {
			return nil // a parser problem is C04's business
		}
		cont, perr = out.c, out.err
		if cont == nil || perr != nil {
			st.Count("parsed_route.rejected")
			return nil
		}
		want, err := Snap(cont)
		if err != nil {
			return err
		}
		st.Count("parsed_route.accepted")
		st.MarkNonTrivial()
		if err := checkJSONText(stringOf(cont), want, st); err != nil {
			return errf("container obtained by parsing %q: %v", c.Parsed, err)
		}
		return nil
	}
	root := c.Root
	if c.Sweep >= 0 {
		root = sweepTree(c.Sweep)
		st.Count("sweep.blocks")
		st.CountN("sweep.codepoints", len(root.L[0].L))
	} else {
		leafStats(st, "", root)
	}
	if root.K != KList && root.K != KObject {
		return nil
	}
	orig := buildMaybeShared(root, c.Share, c.Route)
	if c.Share {
		st.Count("shared_instance")
	}
	text := stringOf(orig)
	if textNonTrivial(text) {
		st.MarkNonTrivial()
		if strings.Contains(text, "e+") || strings.Contains(text, "e-") {
			st.Count("text.exponent")
		}
		if strings.Contains(text, "\\") {
			st.Count("text.escape")
		}
	}
	if err := checkJSONText(text, root, st); err != nil {
		return err
	}
	// String() must not have changed the container
	snap, err := Snap(orig)
	if err != nil {
		return err
	}
	if !EqVBits(snap, root) {
		return errf("String() changed the container: %s -> %s", root.Show(), snap.Show())
	}
	for i, m := range c.Muts {
		ids := Idents(orig)
		target := ids[m.Node%len(ids)]
		var applied bool
		if p, panicked := catch(func() { applied = applyCloneMut(orig, target, m) }); panicked {
			return errf("mutation %d (%s) panicked: %v", i, m.Op, p)
		}
		if !applied {
			continue
		}
		now, err := Snap(orig)
		if err != nil {
			return err
		}
		st.Count("restring_after." + m.Op)
		if err := checkJSONText(stringOf(orig), now, st); err != nil {
			return errf("after a %s on a nested container: %v", m.Op, err)
		}
	}
	return nil
}

func init() {
	Register("C02",
		"rapid-generated value trees as in C01 (shared instances and 1001-1500 nesting levels included) plus an exhaustive sweep of all 1,112,064 Unicode scalar values (each once inside a value and once inside a key, 256 per container). One case in twelve obtains its container by parsing a short text in the spellings the lenient parser tolerates (0x1F, 1_000, +1, .5, 1E5, 1.50, T ...) and is skipped if the library rejects it. The text of String() is read by a strict RFC 8259 scanner written in the harness (cross-checked against encoding/json on every case) and its token tree compared with the generator's tree. Non-trivial = the text contains an escape, a non-ASCII byte or an exponent-form number. Distinct = distinct FNV-64a hash of the case JSON. Construction routes, floats 1-3 ulps beside short decimals, and the nested mutations mixedsort / clearrekey as in C01.",
		GenC02, CheckC02)
	_ = at.TypeNil
}
