package harness

import (
	"encoding/json"
	"fmt"
	"math"
	"reflect"
	"time"

	at "github.com/DanielSvub/anytype"
	"pgregory.net/rapid"
)

// C12: every stored value is normalised to one of seven kinds, consistently reported.

// TV is a serialisable description of a Go value of a given dynamic type.
type TV struct {
	T     string   `json:"t"`
	I     int64    `json:"i,omitempty"`
	U     uint64   `json:"u,omitempty"`
	F     uint64   `json:"f,omitempty"` // float64 bits, or float32 bits in the low word
	S     string   `json:"s,omitempty"`
	B     bool     `json:"b,omitempty"`
	Nil   bool     `json:"nil,omitempty"` // (typed Object/List flavours) this entry is a nil interface value
	Raw   RawBytes `json:"raw,omitempty"` // T == "rawstring": a Go string holding these bytes (not necessarily UTF-8)
	Items []TV     `json:"items,omitempty"`
	Keys  []string `json:"keys,omitempty"`
	// Dup (slice_any / map_any): the Go value built for the first item is stored a second time (appended,
	// or under the key "dup~"), i.e. ONE native map / slice / container instance at two places of an acyclic value
	Dup bool `json:"dup,omitempty"`
	// Big (T == "big_slice_any"): a []any of this many ints followed by one string (lengths around and far
	// beyond 1024, not multiples of 4 or 8)
	Big int `json:"big,omitempty"`
}

type C12Case struct {
	Val   TV     `json:"val"`
	Entry string `json:"entry"`
}

type myInt int
type myString string
type myStruct struct{ A int }

var c12Entries = []string{"NewList", "NewListOf", "NewListFrom", "Add", "Insert", "InsertEnd", "Replace", "ListSetTF", "ListSetTFPad", "ListSetTFNested",
	"NewObject", "NewObjectFrom", "Set", "SetOverwrite", "ObjSetTF", "ObjSetTFNested",
	"ListMap", "ListMapValues", "ListMapInts", "ListMapStrings", "ListMapFloats", "ListMapBools", "ListMapObjects", "ListMapLists", "ListMapAsync",
	"ObjMap", "ObjMapValues", "ObjMapInts", "ObjMapStrings", "ObjMapFloats", "ObjMapBools", "ObjMapObjects", "ObjMapLists", "ObjMapAsync", "Direct",
	"AddSpreadTwice", "SetSpreadTwice", "InsertTypedHost", "ReplaceTypedHost", "AddTypedHost", "SetTypedHost", "ListMapBig", "ListMapValuesBig"}

var unsupportedTypes = []string{"time", "struct", "ptr", "slice_int8", "bytes", "map_string_int8", "map_int_string", "array", "complex", "uintptr", "chan", "func",
	"jsonNumber", "namedint", "namedstring", "slice_uint", "slice_float32", "slice_slice_any", "map_string_slice_any", "slice_int64", "map_string_float32", "error",
	"nil_ptr_int", "nil_ptr_struct", "nil_ptr_slice_any", "nil_func", "nil_chan", "nil_ptr_ptr_string", "ptr_string", "nil_error_ptr"}

var intTypes = []string{"int", "int8", "int16", "int32", "int64", "uint", "uint8", "uint16", "uint32", "uint64"}

func genSizedInt(t *rapid.T, typ string) TV {
	tv := TV{T: typ}
	edge := oneIn(t, 4, "edge")
	switch typ {
	case "int", "int64":
		i, _ := GenInt(t)
		tv.I = int64(i)
	case "int8":
		tv.I = int64(rapid.Int8().Draw(t, "i8"))
		if edge {
			tv.I = []int64{math.MinInt8, math.MaxInt8, -1, 0}[drawIdx(t, 4, "e")]
		}
	case "int16":
		tv.I = int64(rapid.Int16().Draw(t, "i16"))
		if edge {
			tv.I = []int64{math.MinInt16, math.MaxInt16, -129, 128}[drawIdx(t, 4, "e")]
		}
	case "int32":
		tv.I = int64(rapid.Int32().Draw(t, "i32"))
		if edge {
			tv.I = []int64{math.MinInt32, math.MaxInt32, -32769, 32768}[drawIdx(t, 4, "e")]
		}
	case "uint8":
		tv.U = uint64(rapid.Uint8().Draw(t, "u8"))
		if edge {
			tv.U = []uint64{0, 127, 128, 255}[drawIdx(t, 4, "e")]
		}
	case "uint16":
		tv.U = uint64(rapid.Uint16().Draw(t, "u16"))
		if edge {
			tv.U = []uint64{32767, 32768, 65535, 256}[drawIdx(t, 4, "e")]
		}
	case "uint32":
		tv.U = uint64(rapid.Uint32().Draw(t, "u32"))
		if edge {
			tv.U = []uint64{math.MaxInt32, math.MaxInt32 + 1, math.MaxUint32, 65536}[drawIdx(t, 4, "e")]
		}
	case "uint", "uint64":
		tv.U = rapid.Uint64Range(0, math.MaxInt).Draw(t, "u64") // representable values only ("up to MaxInt")
		if edge {
			tv.U = []uint64{math.MaxInt, math.MaxInt - 1, math.MaxUint32 + 1, 1 << 53}[drawIdx(t, 4, "e")]
		}
	}
	return tv
}

func genScalarTV(t *rapid.T) TV {
	switch pick(t, "sk", 5, 8, 30, 12, 12, 12) {
	case 0:
		return TV{T: "nil"}
	case 1:
		return TV{T: "bool", B: drawBool(t, "b")}
	case 2:
		return genSizedInt(t, intTypes[drawIdx(t, len(intTypes), "it")])
	case 3:
		var bits uint32
		switch drawInt(t, 0, 3, "f32k") {
		case 0:
			bits = []uint32{0x3dcccccd /*0.1f*/, 0x00000001 /*subnormal*/, 0x7f7fffff /*MaxFloat32*/, 0x80000000 /*-0*/, 0x3f800000, 0x007fffff, 0x3eaaaaab /*1/3*/, 0x4b800000}[drawIdx(t, 8, "f32e")]
		default:
			bits = rapid.Uint32().Draw(t, "f32")
			if bits&0x7f800000 == 0x7f800000 {
				bits &^= 0x00800000 // keep it finite
			}
			if oneIn(t, 8, "nonfinite32") {
				bits = []uint32{0x7f800000 /*+Inf*/, 0xff800000 /*-Inf*/, 0x7fc00000 /*NaN*/}[drawIdx(t, 3, "nf32")]
			}
		}
		return TV{T: "float32", F: uint64(bits)}
	case 4:
		f, _ := GenFloat(t)
		if oneIn(t, 8, "nonfinite64") {
			// the full range of float64 includes the non-finite values: they are floats like any other
			f = []float64{math.Inf(1), math.Inf(-1), math.NaN()}[drawIdx(t, 3, "nf64")]
		}
		return TV{T: "float64", F: math.Float64bits(f)}
	}
	if oneIn(t, 6, "rawstring") {
		// Go strings are byte strings: ill-formed UTF-8 and binary data are stored and handed back unchanged
		raw := [][]byte{{0xff}, {'a', 0xc3}, {0xed, 0xa0, 0x80}, {0xc0, 0xaf}, {0, 1, 2, 0xfe, 0xff}, {0xf0, 0x9f, 0x98}, []byte("ok\x80ok")}[drawIdx(t, 7, "rawk")]
		if drawBool(t, "rnd") {
			raw = rapid.SliceOfN(rapid.Byte(), 1, 12).Draw(t, "rawbytes")
		}
		return TV{T: "rawstring", Raw: RawBytes(raw)}
	}
	return TV{T: "string", S: GenString(t, 6)}
}

func genTV(t *rapid.T, depth int) TV {
	k := pick(t, "tvk", 45, 10, 20, 15, 10)
	if depth <= 0 && (k == 3) {
		k = 0
	}
	switch k {
	case 0:
		return genScalarTV(t)
	case 1: // existing containers passed by reference
		n := drawInt(t, 0, 3, "n")
		// ... one in three of them a user-defined type embedding the container (registered with Init): still an Object / a List
		tv := TV{T: []string{"Object", "List", "Object", "List", "DerivedObject", "DerivedList"}[drawIdx(t, 6, "ol")]}
		for i := 0; i < n; i++ {
			tv.Items = append(tv.Items, genScalarTV(t))
			tv.Keys = append(tv.Keys, string(rune('a'+i)))
		}
		return tv
	case 2: // typed flavours, nil and empty included
		typ := []string{"slice_Object", "slice_List", "slice_string", "slice_bool", "slice_int", "slice_float64",
			"map_Object", "map_List", "map_string", "map_bool", "map_int", "map_float64"}[drawIdx(t, 12, "flavour")]
		n := []int{-1, 0, 1, 2, 3}[drawIdx(t, 5, "n")] // -1 = nil
		tv := TV{T: typ}
		if n < 0 {
			tv.T = "nil_" + typ
			return tv
		}
		for i := 0; i < n; i++ {
			it := TV{B: drawBool(t, "b"), S: GenString(t, 4), F: math.Float64bits(float64(drawInt(t, -50, 50, "f")) / 4)}
			i64, _ := GenInt(t)
			it.I = int64(i64)
			it.Items = []TV{{T: "int", I: int64(i)}}
			it.Keys = []string{"n"}
			it.Nil = oneIn(t, 6, "nilentry")
			tv.Items = append(tv.Items, it)
			tv.Keys = append(tv.Keys, []string{"a", "b", "", "k.1"}[i%4])
		}
		return tv
	case 3: // []any / map[string]any with arbitrary nesting
		typ := []string{"slice_any", "map_any"}[drawInt(t, 0, 1, "anyk")]
		n := []int{-1, 0, 1, 2, 3, 4}[drawIdx(t, 6, "n")]
		tv := TV{T: typ}
		if n < 0 {
			tv.T = "nil_" + typ
			return tv
		}
		for i := 0; i < n; i++ {
			tv.Items = append(tv.Items, genTV(t, depth-1))
			tv.Keys = append(tv.Keys, []string{"a", "b", "", "k.1", "#0"}[i%5])
		}
		tv.Dup = n > 0 && oneIn(t, 4, "dup")
		return tv
	}
	if oneIn(t, 12, "bigslice") {
		return TV{T: "big_slice_any", Big: []int{1023, 1025, 1027, 2049, 4099, 5003}[drawIdx(t, 6, "bign")]}
	}
	return TV{T: unsupportedTypes[drawIdx(t, len(unsupportedTypes), "unsup")]}
}

func GenC12(t *rapid.T) *C12Case {
	return &C12Case{Val: genTV(t, 3), Entry: c12Entries[drawIdx(t, len(c12Entries), "entry")]}
}

func f32of(tv TV) float32 { return math.Float32frombits(uint32(tv.F)) }

func objFromItem(it TV) at.Object {
	o := at.NewObject()
	for i, k := range it.Keys {
		if i < len(it.Items) {
			o.Set(k, int(it.Items[i].I))
		}
	}
	return o
}

func listFromItem(it TV) at.List {
	l := at.NewList()
	for _, x := range it.Items {
		l.Add(int(x.I))
	}
	return l
}

func vOfItemObject(it TV) V {
	v := V{K: KObject}
	seen := map[string]bool{}
	for i, k := range it.Keys {
		if i < len(it.Items) && !seen[k] {
			seen[k] = true
			v.O = append(v.O, Pair{k, VInt(int(it.Items[i].I))})
		}
	}
	return v
}

func vOfItemList(it TV) V {
	v := V{K: KList}
	for _, x := range it.Items {
		v.L = append(v.L, VInt(int(x.I)))
	}
	return v
}

// toGo builds the Go value; built collects containers passed by reference so
// identity can be checked afterwards.
func toGo(tv TV) any {
	switch tv.T {
	case "nil":
		return nil
	case "bool":
		return tv.B
	case "string":
		return tv.S
	case "rawstring":
		return string(tv.Raw)
	case "int":
		return int(tv.I)
	case "int8":
		return int8(tv.I)
	case "int16":
		return int16(tv.I)
	case "int32":
		return int32(tv.I)
	case "int64":
		return tv.I
	case "uint":
		return uint(tv.U)
	case "uint8":
		return uint8(tv.U)
	case "uint16":
		return uint16(tv.U)
	case "uint32":
		return uint32(tv.U)
	case "uint64":
		return tv.U
	case "float32":
		return f32of(tv)
	case "float64":
		return math.Float64frombits(tv.F)
	case "Object":
		o := at.NewObject()
		for i, k := range tv.Keys {
			o.Set(k, toGo(tv.Items[i]))
		}
		return o
	case "List":
		l := at.NewList()
		for _, it := range tv.Items {
			l.Add(toGo(it))
		}
		return l
	case "DerivedObject":
		o := newDerivedObject(1+len(tv.Items)%3, true)
		for i, k := range tv.Keys {
			o.Set(k, toGo(tv.Items[i]))
		}
		return o
	case "DerivedList":
		l := newDerivedList(1+len(tv.Items)%3, true)
		for _, it := range tv.Items {
			l.Add(toGo(it))
		}
		return l
	case "slice_any":
		s := make([]any, 0, len(tv.Items))
		for _, it := range tv.Items {
			s = append(s, toGo(it))
		}
		if tv.Dup && len(s) > 0 {
			s = append(s, s[0])
		}
		return s
	case "nil_slice_any":
		return []any(nil)
	case "big_slice_any":
		s := make([]any, 0, tv.Big+1)
		for i := 0; i < tv.Big; i++ {
			s = append(s, i)
		}
		return append(s, "last")
	case "map_any":
		m := make(map[string]any, len(tv.Items))
		for i, it := range tv.Items {
			m[tv.Keys[i]] = toGo(it)
		}
		if tv.Dup && len(tv.Items) > 0 {
			m["dup~"] = m[tv.Keys[0]]
		}
		return m
	case "nil_map_any":
		return map[string]any(nil)
	case "slice_Object":
		s := []at.Object{}
		for _, it := range tv.Items {
			if it.Nil {
				s = append(s, nil)
				continue
			}
			s = append(s, objFromItem(it))
		}
		return s
	case "nil_slice_Object":
		return []at.Object(nil)
	case "slice_List":
		s := []at.List{}
		for _, it := range tv.Items {
			if it.Nil {
				s = append(s, nil)
				continue
			}
			s = append(s, listFromItem(it))
		}
		return s
	case "nil_slice_List":
		return []at.List(nil)
	case "slice_string":
		s := []string{}
		for _, it := range tv.Items {
			s = append(s, it.S)
		}
		return s
	case "nil_slice_string":
		return []string(nil)
	case "slice_bool":
		s := []bool{}
		for _, it := range tv.Items {
			s = append(s, it.B)
		}
		return s
	case "nil_slice_bool":
		return []bool(nil)
	case "slice_int":
		s := []int{}
		for _, it := range tv.Items {
			s = append(s, int(it.I))
		}
		return s
	case "nil_slice_int":
		return []int(nil)
	case "slice_float64":
		s := []float64{}
		for _, it := range tv.Items {
			s = append(s, math.Float64frombits(it.F))
		}
		return s
	case "nil_slice_float64":
		return []float64(nil)
	case "map_Object":
		m := map[string]at.Object{}
		for i, it := range tv.Items {
			if it.Nil {
				m[tv.Keys[i]] = nil
				continue
			}
			m[tv.Keys[i]] = objFromItem(it)
		}
		return m
	case "nil_map_Object":
		return map[string]at.Object(nil)
	case "map_List":
		m := map[string]at.List{}
		for i, it := range tv.Items {
			if it.Nil {
				m[tv.Keys[i]] = nil
				continue
			}
			m[tv.Keys[i]] = listFromItem(it)
		}
		return m
	case "nil_map_List":
		return map[string]at.List(nil)
	case "map_string":
		m := map[string]string{}
		for i, it := range tv.Items {
			m[tv.Keys[i]] = it.S
		}
		return m
	case "nil_map_string":
		return map[string]string(nil)
	case "map_bool":
		m := map[string]bool{}
		for i, it := range tv.Items {
			m[tv.Keys[i]] = it.B
		}
		return m
	case "nil_map_bool":
		return map[string]bool(nil)
	case "map_int":
		m := map[string]int{}
		for i, it := range tv.Items {
			m[tv.Keys[i]] = int(it.I)
		}
		return m
	case "nil_map_int":
		return map[string]int(nil)
	case "map_float64":
		m := map[string]float64{}
		for i, it := range tv.Items {
			m[tv.Keys[i]] = math.Float64frombits(it.F)
		}
		return m
	case "nil_map_float64":
		return map[string]float64(nil)
	// ---- unsupported
	case "time":
		return time.Unix(0, 0)
	case "struct":
		return myStruct{1}
	case "ptr":
		x := 5
		return &x
	case "slice_int8":
		return []int8{1, 2}
	case "bytes":
		return []byte("ab")
	case "map_string_int8":
		return map[string]int8{"a": 1}
	case "map_int_string":
		return map[int]string{1: "a"}
	case "array":
		return [2]int{1, 2}
	case "complex":
		return complex(1, 2)
	case "uintptr":
		return uintptr(7)
	case "chan":
		return make(chan int)
	case "func":
		return func() {}
	case "jsonNumber":
		return json.Number("1")
	case "namedint":
		return myInt(3)
	case "namedstring":
		return myString("s")
	case "slice_uint":
		return []uint{1}
	case "slice_float32":
		return []float32{1.5}
	case "slice_slice_any":
		return [][]any{{1}}
	case "map_string_slice_any":
		return map[string][]any{"a": {1}}
	case "slice_int64":
		return []int64{1}
	case "map_string_float32":
		return map[string]float32{"a": 1}
	case "error":
		return errf("an error value")
	// typed nil values of unsupported types are not the nil interface value: they are unsupported too
	case "nil_ptr_int":
		return (*int)(nil)
	case "nil_ptr_struct":
		return (*myStruct)(nil)
	case "nil_ptr_slice_any":
		return (*[]any)(nil)
	case "nil_func":
		return (func())(nil)
	case "nil_chan":
		return (chan int)(nil)
	case "nil_ptr_ptr_string":
		return (**string)(nil)
	case "ptr_string":
		x := "s"
		return &x
	case "nil_error_ptr":
		return (*HangError)(nil)
	}
	panic("toGo: unknown type " + tv.T)
}

// expectTV is the independent type switch: the canonical tree the value must
// become, or supported=false if the value (or a nested one) must be rejected.
func expectTV(tv TV) (V, bool) {
	switch tv.T {
	case "nil":
		return VNil(), true
	case "bool":
		return VBool(tv.B), true
	case "string":
		return VStr(tv.S), true
	case "rawstring":
		return VStr(string(tv.Raw)), true
	case "int", "int8", "int16", "int32", "int64":
		return V{K: KInt, I: tv.I}, true
	case "uint", "uint8", "uint16", "uint32", "uint64":
		return V{K: KInt, I: int64(tv.U)}, true
	case "float32":
		return VFloat(float64(f32of(tv))), true
	case "float64":
		return V{K: KFloat, F: tv.F}, true
	case "Object", "map_any", "DerivedObject":
		out := V{K: KObject}
		idx := map[string]int{}
		for i, k := range tv.Keys {
			v, ok := expectTV(tv.Items[i])
			if !ok {
				return V{}, false
			}
			if j, dup := idx[k]; dup {
				out.O[j].V = v
			} else {
				idx[k] = len(out.O)
				out.O = append(out.O, Pair{k, v})
			}
		}
		if tv.T == "map_any" && tv.Dup && len(tv.Items) > 0 {
			first, _ := out.Field(tv.Keys[0])
			out.O = append(out.O, Pair{"dup~", first})
		}
		return out, true
	case "List", "slice_any", "DerivedList":
		out := V{K: KList}
		for _, it := range tv.Items {
			v, ok := expectTV(it)
			if !ok {
				return V{}, false
			}
			out.L = append(out.L, v)
		}
		if tv.T == "slice_any" && tv.Dup && len(out.L) > 0 {
			out.L = append(out.L, out.L[0])
		}
		return out, true
	case "big_slice_any":
		out := V{K: KList, L: make([]V, 0, tv.Big+1)}
		for i := 0; i < tv.Big; i++ {
			out.L = append(out.L, VInt(i))
		}
		out.L = append(out.L, VStr("last"))
		return out, true
	case "nil_slice_any", "nil_slice_Object", "nil_slice_List", "nil_slice_string", "nil_slice_bool", "nil_slice_int", "nil_slice_float64":
		return V{K: KList}, true
	case "nil_map_any", "nil_map_Object", "nil_map_List", "nil_map_string", "nil_map_bool", "nil_map_int", "nil_map_float64":
		return V{K: KObject}, true
	}
	leaf := func(it TV) (V, bool) {
		switch tv.T {
		case "slice_Object", "map_Object":
			if it.Nil {
				return VNil(), true // a nil interface entry is the nil kind
			}
			return vOfItemObject(it), true
		case "slice_List", "map_List":
			if it.Nil {
				return VNil(), true
			}
			return vOfItemList(it), true
		case "slice_string", "map_string":
			return VStr(it.S), true
		case "slice_bool", "map_bool":
			return VBool(it.B), true
		case "slice_int", "map_int":
			return VInt(int(it.I)), true
		case "slice_float64", "map_float64":
			return V{K: KFloat, F: it.F}, true
		}
		return V{}, false
	}
	switch tv.T {
	case "slice_Object", "slice_List", "slice_string", "slice_bool", "slice_int", "slice_float64",
		"map_Object", "map_List", "map_string", "map_bool", "map_int", "map_float64":
	default:
		return V{}, false
	}
	if len(tv.T) > 6 && tv.T[:6] == "slice_" {
		out := V{K: KList}
		for _, it := range tv.Items {
			v, ok := leaf(it)
			if !ok {
				return V{}, false
			}
			out.L = append(out.L, v)
		}
		return out, true
	}
	if len(tv.T) > 4 && tv.T[:4] == "map_" {
		out := V{K: KObject}
		idx := map[string]int{}
		for i, it := range tv.Items {
			v, ok := leaf(it)
			if !ok {
				return V{}, false
			}
			k := tv.Keys[i]
			if j, dup := idx[k]; dup {
				out.O[j].V = v
			} else {
				idx[k] = len(out.O)
				out.O = append(out.O, Pair{k, v})
			}
		}
		return out, true
	}
	return V{}, false
}

func canonicalGoType(x any) bool {
	switch x.(type) {
	case nil, int, float64, string, bool, at.Object, at.List:
		return true
	}
	return false
}

// slotCheck verifies everything C12 says about one stored value.
func slotCheck(cont any, idx int, key string, want V, passedByRef any) error {
	var get func() any
	var typ at.Type
	getters := map[Kind]func() any{}
	switch c := cont.(type) {
	case at.List:
		get = func() any { return c.Get(idx) }
		typ = c.TypeOf(idx)
		getters[KObject] = func() any { return c.GetObject(idx) }
		getters[KList] = func() any { return c.GetList(idx) }
		getters[KString] = func() any { return c.GetString(idx) }
		getters[KBool] = func() any { return c.GetBool(idx) }
		getters[KInt] = func() any { return c.GetInt(idx) }
		getters[KFloat] = func() any { return c.GetFloat(idx) }
	case at.Object:
		get = func() any { return c.Get(key) }
		typ = c.TypeOf(key)
		getters[KObject] = func() any { return c.GetObject(key) }
		getters[KList] = func() any { return c.GetList(key) }
		getters[KString] = func() any { return c.GetString(key) }
		getters[KBool] = func() any { return c.GetBool(key) }
		getters[KInt] = func() any { return c.GetInt(key) }
		getters[KFloat] = func() any { return c.GetFloat(key) }
	default:
		return errf("slotCheck: no container")
	}
	var g any
	if p, panicked := catch(func() { g = get() }); panicked {
		return errf("Get panicked for the stored value: %v", p)
	}
	if !canonicalGoType(g) {
		return errf("Get returns a %T; stored values must come back as nil, int, float64, string, bool, Object or List", g)
	}
	if typ != typeOfKind(want.K) {
		return errf("TypeOf reports %d, expected kind %v", typ, want.K)
	}
	snap, err := Snap(g)
	if err != nil {
		return err
	}
	if !EqVBits(snap, want) {
		return errf("stored value is %s (Go type %s), expected %s", snap.Show(), reflect.TypeOf(g), want.Show())
	}
	if passedByRef != nil && g != passedByRef {
		return errf("an Object/List value was not stored as the identical container")
	}
	for k, f := range getters {
		var r any
		_, panicked := catch(func() { r = f() })
		if k == want.K {
			if panicked {
				return errf("the typed getter for %v panicked on a value of that kind", k)
			}
			same := ifaceEq(r, g)
			if rf, ok := r.(float64); ok && !same {
				gf, ok2 := g.(float64)
				same = ok2 && math.Float64bits(rf) == math.Float64bits(gf) // NaN is not == itself
			}
			if !same {
				return errf("the typed getter for %v returns %s, Get returns %s", k, showAny(r), showAny(g))
			}
		} else if !panicked {
			return errf("the typed getter for %v returned %s for a value of kind %v; it must panic", k, showAny(r), want.K)
		}
	}
	return nil
}

var c12BigList at.List

// c12Big: a list of 320 ints that is only ever read.
func c12Big() at.List {
	if c12BigList == nil {
		c12BigList = at.NewList()
		for i := 0; i < 320; i++ {
			c12BigList.Add(i)
		}
	}
	return c12BigList
}

func CheckC12(c *C12Case, st *Stats) error {
	want, supported := expectTV(c.Val)
	x := toGo(c.Val)
	var byRef any
	if c.Val.T == "Object" || c.Val.T == "List" || c.Val.T == "DerivedObject" || c.Val.T == "DerivedList" {
		byRef = x
	}
	st.Count("type." + c.Val.T)
	st.Count("entry." + c.Entry)
	switch c.Val.T {
	case "nil", "bool", "string", "int", "float64":
	default:
		st.MarkNonTrivial()
	}
	if !supported {
		st.Count("unsupported")
	}

	var cont any      // container to inspect
	idx, key := 0, "" // slot
	var pre any       // pre-existing container that a rejected single-value call must leave unchanged
	var preSnap IdentSnap
	setPre := func(p any) {
		pre = p
		preSnap, _ = TakeIdentSnap(p)
	}
	fn := func(any) any { return x }
	var call func()
	switch c.Entry {
	case "NewList":
		call = func() { cont, idx = at.NewList(1.5, x), 1 }
	case "NewListOf":
		call = func() { cont, idx = at.NewListOf(x, 2), 1 }
	case "NewListFrom":
		call = func() { cont, idx = at.NewListFrom([]any{"s", x}), 1 }
	case "Add":
		l := at.NewList("p")
		setPre(l)
		call = func() { cont, idx = l.Add(x), 1 }
	case "AddSpreadTwice":
		// the caller spreads ONE slice into two calls: the second call sees the values the first one saw
		vals := []any{"p", x}
		call = func() {
			at.NewList().Add(vals...)
			cont, idx = at.NewList(vals...), 1
		}
	case "SetSpreadTwice":
		pairs := []any{"a", 1, "k", x}
		call = func() {
			at.NewObject().Set(pairs...)
			cont, key = at.NewObject(pairs...), "k"
		}
	case "Insert":
		l := at.NewList("p", "q")
		setPre(l)
		call = func() { cont, idx = l.Insert(1, x), 1 }
	case "InsertTypedHost":
		// hosts that come from a typed Go slice / map and have held one kind only so far
		l := at.NewListFrom([]string{"p", "q", "r"})
		setPre(l)
		call = func() { cont, idx = l.Insert(1, x), 1 }
	case "ReplaceTypedHost":
		l := at.NewListFrom([]int{7, 8, 9})
		setPre(l)
		call = func() { cont, idx = l.Replace(2, x), 2 }
	case "AddTypedHost":
		l := at.NewListFrom([]float64{0.5, 1.5})
		setPre(l)
		call = func() { cont, idx = l.Add(x), 2 }
	case "SetTypedHost":
		o := at.NewObjectFrom(map[string]bool{"a": true, "b": false})
		setPre(o)
		call = func() { cont, key = o.Set("k", x), "k" }
	case "InsertEnd":
		l := at.NewList("p", "q")
		setPre(l)
		call = func() { cont, idx = l.Insert(2, x), 2 }
	case "Replace":
		l := at.NewList("p", "q")
		setPre(l)
		call = func() { cont, idx = l.Replace(0, x), 0 }
	case "ListSetTF":
		l := at.NewList("p")
		setPre(l)
		call = func() { cont, idx = l.SetTF("#0", x), 0 }
	case "ListSetTFPad":
		l := at.NewList("p")
		call = func() { cont, idx = l.SetTF("#3", x), 3 }
	case "ListSetTFNested":
		l := at.NewList()
		call = func() { l.SetTF("#0.k", x); cont, key = l.GetObject(0), "k" }
	case "NewObject":
		call = func() { cont, key = at.NewObject("p", 1, "k", x), "k" }
	case "NewObjectFrom":
		call = func() { cont, key = at.NewObjectFrom(map[string]any{"k": x}), "k" }
	case "Set":
		o := at.NewObject("p", 1)
		setPre(o)
		call = func() { cont, key = o.Set("k", x), "k" }
	case "SetOverwrite":
		o := at.NewObject("k", "old")
		setPre(o)
		call = func() { cont, key = o.Set("k", x), "k" }
	case "ObjSetTF":
		o := at.NewObject("p", 1)
		setPre(o)
		call = func() { cont, key = o.SetTF(".k", x), "k" }
	case "ObjSetTFNested":
		o := at.NewObject()
		call = func() { o.SetTF(".a#1", x); cont, idx = o.GetList("a"), 1 }
	case "ListMap":
		call = func() { cont = at.NewList(1).Map(func(int, any) any { return x }) }
	case "ListMapValues":
		call = func() { cont = at.NewList(1).MapValues(fn) }
	case "ListMapBig":
		// a Map over 320 elements whose callback returns the value for the first element only
		call = func() {
			cont = c12Big().Map(func(i int, y any) any {
				if i == 0 {
					return x
				}
				return y
			})
			if cont.(at.List).Count() != 320 {
				panic(fmt.Sprintf("Map over 320 elements returned %d elements", cont.(at.List).Count()))
			}
		}
	case "ListMapValuesBig":
		call = func() {
			first := true
			cont = c12Big().MapValues(func(y any) any {
				if first {
					first = false
					return x
				}
				return y
			})
			if cont.(at.List).Count() != 320 {
				panic(fmt.Sprintf("MapValues over 320 elements returned %d elements", cont.(at.List).Count()))
			}
		}
	case "ListMapInts":
		call = func() { cont = at.NewList("s", 7).MapInts(func(int) any { return x }) }
	case "ListMapStrings":
		call = func() { cont = at.NewList(7, "s").MapStrings(func(string) any { return x }) }
	case "ListMapFloats":
		call = func() { cont = at.NewList(7, 1.5).MapFloats(func(float64) any { return x }) }
	case "ListMapBools":
		call = func() { cont = at.NewList(7, true).MapBools(func(bool) any { return x }) }
	case "ListMapObjects":
		call = func() { cont = at.NewList(7, at.NewObject()).MapObjects(func(at.Object) any { return x }) }
	case "ListMapLists":
		call = func() { cont = at.NewList(7, at.NewList()).MapLists(func(at.List) any { return x }) }
	case "ListMapAsync":
		call = func() { cont = at.NewList(1).MapAsync(func(int, any) any { return x }) }
	case "ObjMap":
		call = func() { cont, key = at.NewObject("k", 7).Map(func(string, any) any { return x }), "k" }
	case "ObjMapValues":
		call = func() { cont, key = at.NewObject("k", 7).MapValues(fn), "k" }
	case "ObjMapInts":
		call = func() { cont, key = at.NewObject("k", 7, "z", "s").MapInts(func(int) any { return x }), "k" }
	case "ObjMapStrings":
		call = func() { cont, key = at.NewObject("k", "s", "z", 1).MapStrings(func(string) any { return x }), "k" }
	case "ObjMapFloats":
		call = func() { cont, key = at.NewObject("k", 1.5, "z", 1).MapFloats(func(float64) any { return x }), "k" }
	case "ObjMapBools":
		call = func() { cont, key = at.NewObject("k", true, "z", 1).MapBools(func(bool) any { return x }), "k" }
	case "ObjMapObjects":
		call = func() {
			cont, key = at.NewObject("k", at.NewObject(), "z", 1).MapObjects(func(at.Object) any { return x }), "k"
		}
	case "ObjMapLists":
		call = func() {
			cont, key = at.NewObject("k", at.NewList(), "z", 1).MapLists(func(at.List) any { return x }), "k"
		}
	case "ObjMapAsync":
		call = func() { cont, key = at.NewObject("k", 7).MapAsync(func(string, any) any { return x }), "k" }
	case "Direct":
		// supported slices/maps go straight to NewListFrom / NewObjectFrom; everything else must be rejected by them
		var whole any
		p, panicked := catch(func() {
			if want.K == KObject && c.Val.T != "Object" {
				whole = at.NewObjectFrom(x)
			} else {
				whole = at.NewListFrom(x)
			}
		})
		directOK := supported && (want.K == KList || want.K == KObject) && c.Val.T != "Object" && c.Val.T != "List" && c.Val.T != "DerivedObject" && c.Val.T != "DerivedList"
		if directOK {
			if panicked {
				return errf("NewListFrom/NewObjectFrom rejected a supported %s: %v", c.Val.T, p)
			}
			snap, err := Snap(whole)
			if err != nil {
				return err
			}
			if !EqVBits(snap, want) {
				return errf("NewListFrom/NewObjectFrom(%s) gives %s, expected %s", c.Val.T, snap.Show(), want.Show())
			}
			return nil
		}
		if !panicked {
			return errf("NewListFrom accepted a value of type %T (got %s); it must panic", x, showAny(whole))
		}
		return nil
	default:
		return nil
	}
	if !supported && (c.Entry == "ListMapAsync" || c.Entry == "ObjMapAsync") {
		// the rejection happens inside a goroutine started by the library: a panic there cannot be
		// observed by the caller (it terminates the process), so this combination is not executed
		st.Count("skipped.async_unsupported")
		return nil
	}
	p, panicked := catch(call)
	if !supported {
		if !panicked {
			got := ""
			if cont != nil {
				got = stringOf(cont)
			}
			return errf("%s accepted a value of unsupported type %T (container now %s); it must panic", c.Entry, x, clip(got, 200))
		}
		if pre != nil {
			after, err := TakeIdentSnap(pre)
			if err != nil {
				return errf("%s: after rejecting a %T the container is inconsistent: %v", c.Entry, x, err)
			}
			if !preSnap.Same(after) {
				return errf("%s rejected a value of type %T with a panic but the container changed: %s -> %s", c.Entry, x, preSnap.Tree.Show(), after.Tree.Show())
			}
		}
		return nil
	}
	if panicked {
		return errf("%s panicked on a supported %s value (%v): %v", c.Entry, c.Val.T, clip(showAny(x), 80), p)
	}
	if err := slotCheck(cont, idx, key, want, byRef); err != nil {
		return errf("%s with a %s: %v", c.Entry, c.Val.T, err)
	}
	if c.Entry == "NewListOf" {
		if err := slotCheck(cont, 0, "", want, byRef); err != nil {
			return errf("%s with a %s (element 0): %v", c.Entry, c.Val.T, err)
		}
	}
	// maps and slices become FRESH containers: two conversions (of two separately built inputs) never
	// yield the same container, and changing one does not change the other
	if byRef == nil && (want.K == KList || want.K == KObject) {
		two := at.NewList(toGo(c.Val), toGo(c.Val))
		first, second := two.Get(0), two.Get(1)
		if first == second {
			return errf("two conversions of a %s produced the identical container (conversions must be fresh)", c.Val.T)
		}
		switch x := first.(type) {
		case at.List:
			x.Add("marker")
		case at.Object:
			x.Set("marker", 1)
		}
		if snap, err := Snap(second); err != nil || !EqVBits(snap, want) {
			return errf("changing one converted %s changed another conversion of an equal value: %s, expected %s (%v)", c.Val.T, snap.Show(), want.Show(), err)
		}
		third := at.NewObject("k", toGo(c.Val)).Get("k")
		if snap, err := Snap(third); err != nil || !EqVBits(snap, want) {
			return errf("a later conversion of an equal %s is %s, expected %s (%v)", c.Val.T, snap.Show(), want.Show(), err)
		}
	}
	return nil
}

func init() {
	Register("C12",
		"Go values of every supported dynamic type over full ranges (int8..int64, uint8..uint64 and uint up to MaxInt with width edges, float32 incl. subnormals/MaxFloat32/0.1f/-0, float64, string, bool, nil, Object and List by reference, the 7 slice and 7 map flavours incl. nil and empty and nil interface entries in the Object/List flavours, []any / map[string]any nested to depth 3, in one case of four holding ONE native map / slice / container instance at two places) and 30 unsupported types (time.Time, struct, pointer, typed nil pointers / func / chan, []int8, []byte, map[string]int8, map[int]string, array, complex, uintptr, chan, func, json.Number, named int/string, []uint, []float32, [][]any, ...), also nested inside []any/map[string]any, x 37 entry points (two of them spread one Go slice into two successive calls) (constructors, Add, Insert, Replace, Set, tree-form writes incl. padding and nested paths, the results of every Map variant on lists and objects incl. MapAsync, and NewListFrom/NewObjectFrom called directly). Oracle: an independent type switch in the harness gives the expected kind/value; Get returns exactly nil/int/float64/string/bool/Object/List, TypeOf agrees, the matching typed getter returns the value and the five others panic, content equals the expected tree bit-exactly, containers passed by reference keep identity; unsupported values make the call panic and leave a pre-existing container unchanged. Non-trivial = any value whose Go type is not already canonical. Distinct = distinct FNV-64a hash of the case JSON. Containers passed by reference are in one case of three user-defined types embedding Object / List (still kind object / list, identical value handed back); four more entry points store into hosts that come from a typed Go slice / map and have held one kind only (Insert, Replace, Add, Set). Two more entry points map over a read-only list of 320 elements, the value being the callback result for the first element.",
		GenC12, CheckC12).PreWriteIf = func(c any) bool {
		cc, ok := c.(*C12Case)
		return ok && (cc.Entry == "ListMapAsync" || cc.Entry == "ObjMapAsync")
	}
}
