// Package harness holds the generated-input checks for the properties C01..C20
// of github.com/DanielSvub/anytype. Every check is a pure function of its case
// (CheckCNN); cases are drawn by rapid generators (GenCNN) or decoded from a
// replay file. See /verif/DESIGN.md.
package harness

import (
	"encoding/binary"
	"encoding/json"
	"errors"
	"fmt"
	"hash/fnv"
	"os"
	"path/filepath"
	"runtime/debug"
	"sort"
	"strings"
	"sync"
	"time"

	"pgregory.net/rapid"
)

// Stats collects what one process explored. It is dumped by TestMain.
type Stats struct {
	mu         sync.Mutex
	Evals      int64
	NonTrivial int64
	Hist       map[string]int64
	Samples    []json.RawMessage
	hashes     map[uint64]struct{}

	// per-case scratch, reset by runCase
	nt bool
}

func NewStats() *Stats {
	return &Stats{Hist: map[string]int64{}, hashes: map[uint64]struct{}{}}
}

// Count adds one to a histogram class.
func (s *Stats) Count(class string) {
	s.mu.Lock()
	s.Hist[class]++
	s.mu.Unlock()
}

// CountN adds n to a histogram class.
func (s *Stats) CountN(class string, n int) {
	s.mu.Lock()
	s.Hist[class] += int64(n)
	s.mu.Unlock()
}

// MarkNonTrivial flags the case being executed as non-trivial by the
// property's stated rule.
func (s *Stats) MarkNonTrivial() { s.nt = true }

var global = NewStats()

// Prop is one registered property check.
type Prop struct {
	ID      string
	Rule    string
	Gen     func(t *rapid.T) any
	New     func() any
	Check   func(c any, st *Stats) error
	Exclude func(c any) string // non-empty: case belongs to a known finding (excluded, counted)
	// PreWrite: the case is written to $VERIF_FAILDIR/current.json before it runs, so that a
	// process abort (race detector, fatal runtime error) still leaves a replay file.
	PreWrite bool
	// PreWriteIf: like PreWrite, for the cases it selects (those that make the library start goroutines:
	// a panic inside such a goroutine cannot be recovered by any caller and ends the process)
	PreWriteIf func(c any) bool
	// NoFailedCallsFirst: do not run failedCallsFirst (poison.go) before the cases of this property
	NoFailedCallsFirst bool
}

var preWritten bool

var registry = map[string]*Prop{}

// Register adds a property with a typed generator and check function.
func Register[C any](id, rule string, gen func(*rapid.T) *C, check func(*C, *Stats) error) *Prop {
	p := &Prop{
		ID:   id,
		Rule: rule,
		Gen:  func(t *rapid.T) any { return gen(t) },
		New:  func() any { return new(C) },
		Check: func(c any, st *Stats) error {
			return check(c.(*C), st)
		},
	}
	registry[id] = p
	return p
}

// Replay is the on-disk format of a replay / corpus / finding file.
type Replay struct {
	Property string          `json:"property"`
	Case     json.RawMessage `json:"case"`
	Error    string          `json:"error,omitempty"`
	Note     string          `json:"note,omitempty"`
}

// caseWatchdog bounds one case: every check takes micro- to milliseconds (the largest generated inputs a
// few seconds), so a case still running after this long waits for something that will never happen - a
// lock the library took twice or left locked on an error path. The clock can only turn such a hang into a
// report (HangError: recorded unshrunk, the process stops).
const caseWatchdog = 60 * time.Second

// SafeCheck runs the check under the case watchdog and converts an unexpected panic into an error.
func SafeCheck(p *Prop, c any, st *Stats) error {
	done := make(chan error, 1)
	go func() {
		defer func() {
			if r := recover(); r != nil {
				done <- fmt.Errorf("unexpected panic: %v\n%s", r, trimStack(debug.Stack()))
			}
		}()
		done <- p.Check(c, st)
	}()
	timer := time.NewTimer(caseWatchdog)
	defer timer.Stop()
	select {
	case err := <-done:
		return err
	case <-timer.C:
		return hangf("the case did not finish within %v: a call of the library never returned (for example a lock taken twice, or left locked by an earlier call that panicked)", caseWatchdog)
	}
}

func trimStack(b []byte) string {
	lines := strings.Split(string(b), "\n")
	if len(lines) > 40 {
		lines = lines[:40]
	}
	return strings.Join(lines, "\n")
}

var (
	failMu   sync.Mutex
	bestFail = -1
)

// RecordFailure writes the failing case to $VERIF_FAILDIR keeping the smallest
// one seen by this process (rapid re-executes while shrinking, so the last
// smallest is the shrunk case).
func RecordFailure(p *Prop, c any, cerr error) {
	dir := os.Getenv("VERIF_FAILDIR")
	if dir == "" {
		return
	}
	raw, err := json.Marshal(c)
	if err != nil {
		raw = []byte(`null`)
	}
	failMu.Lock()
	defer failMu.Unlock()
	if bestFail >= 0 && len(raw) >= bestFail {
		return
	}
	bestFail = len(raw)
	msg := cerr.Error()
	if len(msg) > 4000 {
		msg = msg[:4000] + "…"
	}
	out, _ := json.MarshalIndent(Replay{Property: p.ID, Case: raw, Error: msg}, "", " ")
	name := filepath.Join(dir, fmt.Sprintf("fail-%d.json", os.Getpid()))
	tmp := name + ".tmp"
	if os.WriteFile(tmp, out, 0o644) == nil {
		os.Rename(tmp, name)
	}
}

// RunCase executes one generated case with bookkeeping; returns the check error.
func RunCase(p *Prop, c any) error {
	st := global
	st.nt = false
	if p.Exclude != nil {
		if tag := p.Exclude(c); tag != "" && excluded(tag) {
			st.Count("excluded." + tag)
			return nil
		}
	}
	if !p.PreWrite && preWritten {
		// the file describes an earlier case: it must not be blamed for an abort of this one
		if dir := os.Getenv("VERIF_FAILDIR"); dir != "" {
			os.Remove(filepath.Join(dir, "current.json"))
		}
		preWritten = false
	}
	if p.PreWrite || (p.PreWriteIf != nil && p.PreWriteIf(c)) {
		preWritten = true
		if dir := os.Getenv("VERIF_FAILDIR"); dir != "" {
			if raw, merr := json.Marshal(c); merr == nil {
				out, _ := json.Marshal(Replay{Property: p.ID, Case: raw, Error: "process aborted while this case was running (data race report or fatal runtime error)"})
				os.WriteFile(filepath.Join(dir, "current.json"), out, 0o644)
			}
		}
	}
	if !p.NoFailedCallsFirst {
		failedCallsFirst(st)
	}
	err := SafeCheck(p, c, st)
	st.mu.Lock()
	st.Evals++
	nt := st.nt
	st.mu.Unlock()
	if nt && err == nil {
		raw, merr := json.Marshal(c)
		if merr == nil {
			h := fnv.New64a()
			h.Write(raw)
			st.mu.Lock()
			st.NonTrivial++
			st.hashes[h.Sum64()] = struct{}{}
			if len(st.Samples) < 6 && len(raw) < 1500 && (st.NonTrivial%7 == 1 || len(st.Samples) == 0) {
				st.Samples = append(st.Samples, append(json.RawMessage(nil), raw...))
			}
			st.mu.Unlock()
		}
	}
	if err != nil {
		RecordFailure(p, c, err)
		var he *HangError
		if errors.As(err, &he) && os.Getenv("VERIF_FAILDIR") != "" {
			// A call of the library never returned: the goroutine running it is still alive and may hold
			// locks, and every attempt to shrink the case would wait for the watchdog again. Report the
			// case as it is and stop this process.
			fmt.Fprintf(os.Stderr, "--- %v\nHANG: the case was recorded without shrinking; the process stops here\n", err)
			CleanupScratch()
			DumpStats()
			os.Exit(1)
		}
	}
	return err
}

// HangError is returned by a watchdog: a call of the library did not return in time.
type HangError struct{ msg string }

func (e *HangError) Error() string { return e.msg }

// hangf is errf for watchdog verdicts.
func hangf(format string, a ...any) error { return &HangError{msg: fmt.Sprintf(format, a...)} }

var excludeSet map[string]bool

func excluded(tag string) bool {
	if excludeSet == nil {
		excludeSet = map[string]bool{}
		for _, t := range strings.Split(os.Getenv("VERIF_EXCLUDE"), ",") {
			if t != "" {
				excludeSet[t] = true
			}
		}
	}
	return excludeSet[tag]
}

// Tier reports "quick" or "thorough".
func Tier() string {
	if os.Getenv("VERIF_TIER") == "thorough" {
		return "thorough"
	}
	return "quick"
}

func Thorough() bool { return Tier() == "thorough" }

// DumpStats writes the statistics of this process to $VERIF_STATSDIR.
func DumpStats() {
	dir := os.Getenv("VERIF_STATSDIR")
	if dir == "" {
		return
	}
	st := global
	st.mu.Lock()
	defer st.mu.Unlock()
	if st.Evals == 0 && len(st.Hist) == 0 {
		return
	}
	base := filepath.Join(dir, fmt.Sprintf("stats-%d", os.Getpid()))
	hs := make([]uint64, 0, len(st.hashes))
	for h := range st.hashes {
		hs = append(hs, h)
	}
	sort.Slice(hs, func(i, j int) bool { return hs[i] < hs[j] })
	buf := make([]byte, 8*len(hs))
	for i, h := range hs {
		binary.LittleEndian.PutUint64(buf[8*i:], h)
	}
	os.WriteFile(base+".hashes", buf, 0o644)
	rule := ""
	if p := registry[os.Getenv("VERIF_PROP")]; p != nil {
		rule = p.Rule
	}
	out, _ := json.Marshal(map[string]any{
		"rule":       rule,
		"evals":      st.Evals,
		"nontrivial": st.NonTrivial,
		"hist":       st.Hist,
		"samples":    st.Samples,
	})
	os.WriteFile(base+".json", out, 0o644)
}

// MergeHashes counts distinct 64-bit hashes over the given files.
func MergeHashes(files []string) (int, error) {
	var all []uint64
	for _, f := range files {
		b, err := os.ReadFile(f)
		if err != nil {
			return 0, err
		}
		for i := 0; i+8 <= len(b); i += 8 {
			all = append(all, binary.LittleEndian.Uint64(b[i:]))
		}
	}
	sort.Slice(all, func(i, j int) bool { return all[i] < all[j] })
	n := 0
	for i, h := range all {
		if i == 0 || h != all[i-1] {
			n++
		}
	}
	return n, nil
}

// errf is a short alias.
func errf(format string, a ...any) error { return fmt.Errorf(format, a...) }
