package harness

import (
	"math/big"
	"strconv"
	"strings"
	"unicode/utf8"

	at "github.com/DanielSvub/anytype"
	"pgregory.net/rapid"
)

// C10: tree-form reads equal step-by-step navigation; unresolved paths are Undefined.

type C10Case struct {
	Root  V      `json:"root"`
	Path  string `json:"path"`
	Class string `json:"class"`           // how the path was produced (informational)
	Build int    `json:"build,omitempty"` // construction-route seed (0 = Add/Set)
	// Muts: mutations applied directly to nested containers (through their own handles) between
	// repeated reads of the same path; every read must agree with stepwise navigation at that time
	Muts []CloneMut `json:"muts,omitempty"`
	// Derived > 0: every Derived-th nested container is a user-defined derived type
	Derived int `json:"derived,omitempty"`
	// Latin1: keys and path are re-encoded at check time so that U+0080..U+00FF become single bytes
	// (keys that are not valid UTF-8); the JSON of the case keeps the readable spelling
	Latin1 bool `json:"latin1,omitempty"`
	// Storm > 0: instead of one path, Storm distinct resolvable paths of 7 segments into one tree (lists
	// and objects in alternation, three children per node) are read in one go and then all of them once
	// more: whatever the library keeps per path spelling (compiled forms, memo tables) sees more distinct
	// deep paths than any bounded table holds, and the early ones again afterwards
	Storm int `json:"storm,omitempty"`
}

// stormTree builds the tree of the path storm; leaf number i is the int i.
func stormTree(depth int, base *int) any {
	if depth == 0 {
		*base++
		return *base - 1
	}
	if depth%2 == 1 {
		o := at.NewObject()
		for _, k := range []string{"a", "b", "c"} {
			o.Set(k, stormTree(depth-1, base))
		}
		return o
	}
	l := at.NewList()
	for i := 0; i < 3; i++ {
		l.Add(stormTree(depth-1, base))
	}
	return l
}

func stormPath(leaf, depth int) string {
	var sb strings.Builder
	div := 1
	for i := 1; i < depth; i++ {
		div *= 3
	}
	for d := depth; d > 0; d-- {
		digit := leaf / div % 3
		if d%2 == 1 {
			sb.WriteString("." + string(rune('a'+digit)))
		} else {
			sb.WriteString("#" + strconv.Itoa(digit))
		}
		div /= 3
	}
	return sb.String()
}

func checkStorm(c *C10Case, st *Stats) error {
	const depth = 7
	n := 0
	root := stormTree(depth, &n).(at.Object)
	st.Count("path_storm")
	st.MarkNonTrivial()
	for pass := 0; pass < 2; pass++ {
		for i := 0; i < c.Storm && i < n; i++ {
			leaf := (i * 7) % n // 7 and 3^7 are coprime: distinct leaves
			p := stormPath(leaf, depth)
			var got any
			var typ at.Type
			if pv, panicked := catch(func() { got, typ = root.GetTF(p), root.TypeOfTF(p) }); panicked {
				return errf("path storm, pass %d, path %d: GetTF/TypeOfTF(%q) panicked on a resolvable path: %v", pass+1, i, p, pv)
			}
			if got != leaf || typ != at.TypeInt {
				return errf("path storm, pass %d, path %d of %d: GetTF(%q) = %s (TypeOfTF %d), step-by-step navigation gives int(%d)", pass+1, i, c.Storm, p, showAny(got), typ, leaf)
			}
		}
	}
	return nil
}

// tfKeys: non-empty, sigil-free keys (the only keys tree form can address).
var tfKeys = []string{"a", "b", "k", "x", "key", "é", "a b", "0", "1", "-1", "A", "kk", "C:\\", "\\", "a\\b", "ÿ", "café", "k ", " k", " ", "k\n", "\tx", "a*", "k?", "[k]", "*", "?", "k[%]"}

func tfKeyGen(t *rapid.T) string { return tfKeys[drawIdx(t, len(tfKeys), "tfkey")] }

func tfTreeCfg() TreeCfg {
	return TreeCfg{MaxDepth: 5, MaxWidth: 4, MaxStr: 4, KeyGen: tfKeyGen, LongLists: true}
}

// tfSeg is one parsed path segment.
type tfSeg struct {
	sigil byte
	text  string
}

// parseTF splits a path per the grammar ('.' key | '#' index)+ with non-empty
// segment texts. ok=false if the string is not of that shape.
func parseTF(p string) ([]tfSeg, bool) {
	if len(p) == 0 {
		return nil, false
	}
	var segs []tfSeg
	i := 0
	for i < len(p) {
		if p[i] != '.' && p[i] != '#' {
			return nil, false
		}
		j := i + 1
		for j < len(p) && p[j] != '.' && p[j] != '#' {
			j++
		}
		if j == i+1 {
			return nil, false
		}
		segs = append(segs, tfSeg{p[i], p[i+1 : j]})
		i = j
	}
	return segs, true
}

func canonicalIndex(s string) (int, bool) {
	if s == "" || (len(s) > 1 && s[0] == '0') {
		return 0, false
	}
	for i := 0; i < len(s); i++ {
		if s[i] < '0' || s[i] > '9' {
			return 0, false
		}
	}
	n, err := strconv.Atoi(s)
	return n, err == nil
}

type tfOutcome int

const (
	tfResolved tfOutcome = iota
	tfUnresolved
	tfAmbiguous // an index spelling outside "non-negative decimal" that a lenient integer parser may accept
)

// resolveTF walks the implementation tree one segment at a time with the
// primitive accessors only (Get, TypeOf, KeyExists, Count).
func resolveTF(root any, path string, st *Stats) (any, tfOutcome) {
	segs, ok := parseTF(path)
	if !ok {
		return nil, tfUnresolved
	}
	for _, s := range segs {
		if s.sigil == '#' {
			if _, canon := canonicalIndex(s.text); !canon {
				// spellings outside canonical decimal that SOME reasonable integer parser accepts (base 0:
				// 0x1, 0b1, 017, 1_0, +1; base 10: 0158, +1, -0): neither outcome is prescribed
				_, err0 := strconv.ParseInt(s.text, 0, 64)
				_, err10 := strconv.ParseInt(s.text, 10, 64)
				if err0 == nil || err10 == nil {
					return nil, tfAmbiguous
				}
			}
		}
	}
	cur := root
	for _, s := range segs {
		switch c := cur.(type) {
		case at.Object:
			if s.sigil != '.' || !c.KeyExists(s.text) {
				return nil, tfUnresolved
			}
			if st != nil {
				st.Count("step.object.key")
			}
			cur = c.Get(s.text)
		case at.List:
			if s.sigil != '#' {
				return nil, tfUnresolved
			}
			idx, canon := canonicalIndex(s.text)
			if !canon || idx >= c.Count() {
				return nil, tfUnresolved
			}
			if st != nil {
				st.Count("step.list.index")
			}
			cur = c.Get(idx)
		default:
			return nil, tfUnresolved // a scalar in the way
		}
	}
	return cur, tfResolved
}

// randomWalk draws a resolvable path in the model tree; returns segments.
func randomWalk(t *rapid.T, root V, maxSteps int) []tfSeg {
	var segs []tfSeg
	cur := root
	for len(segs) < maxSteps {
		switch cur.K {
		case KObject:
			var addressable []int
			for i, p := range cur.O {
				if p.K != "" && !strings.ContainsAny(p.K, ".#") {
					addressable = append(addressable, i)
				}
			}
			if len(addressable) == 0 {
				return segs
			}
			p := cur.O[addressable[drawIdx(t, len(addressable), "child")]]
			segs = append(segs, tfSeg{'.', p.K})
			cur = p.V
		case KList:
			if len(cur.L) == 0 {
				return segs
			}
			i := drawIdx(t, len(cur.L), "child")
			segs = append(segs, tfSeg{'#', strconv.Itoa(i)})
			cur = cur.L[i]
		default:
			return segs
		}
		if len(segs) >= 1 && maxSteps <= 8 && oneIn(t, 4, "stop") {
			return segs
		}
		if maxSteps > 8 && oneIn(t, 40, "stop") {
			return segs
		}
	}
	return segs
}

func joinTF(segs []tfSeg) string {
	var sb strings.Builder
	for _, s := range segs {
		sb.WriteByte(s.sigil)
		sb.WriteString(s.text)
	}
	return sb.String()
}

var corruptions = []string{"drop_segment", "swap_sigil", "index_to_n", "index_beyond", "index_negative", "key_misspelt", "trailing_sigil",
	"leading_sigil_removed", "leading_sigil_wrong", "empty_segment", "non_numeric_index", "index_overflow", "extra_segment", "noncanonical_index", "double_leading"}

func corruptPath(t *rapid.T, root V, segs []tfSeg) (string, string) {
	kind := corruptions[drawIdx(t, len(corruptions), "corruption")]
	if len(segs) == 0 {
		return []string{"", ".", "#", "x"}[drawInt(t, 0, 3, "short")], "too_short"
	}
	s := append([]tfSeg{}, segs...)
	i := drawIdx(t, len(s), "at")
	// the node addressed by the prefix before segment i (to know list lengths)
	nodeAt := func(k int) V {
		cur := root
		for _, sg := range s[:k] {
			if cur.K == KObject {
				cur, _ = cur.Field(sg.text)
			} else if cur.K == KList {
				n, _ := strconv.Atoi(sg.text)
				if n < len(cur.L) {
					cur = cur.L[n]
				}
			}
		}
		return cur
	}
	switch kind {
	case "drop_segment":
		s = append(s[:i:i], s[i+1:]...)
	case "swap_sigil":
		if s[i].sigil == '.' {
			s[i].sigil = '#'
		} else {
			s[i].sigil = '.'
		}
	case "index_to_n", "index_beyond", "index_negative", "non_numeric_index", "index_overflow", "noncanonical_index":
		// find an index segment at or after i (else before)
		j := -1
		for k := range s {
			if s[(i+k)%len(s)].sigil == '#' {
				j = (i + k) % len(s)
				break
			}
		}
		if j < 0 {
			s = append(s, tfSeg{'#', "0"})
			j = len(s) - 1
		}
		n := len(nodeAt(j).L)
		switch kind {
		case "index_to_n":
			s[j].text = strconv.Itoa(n)
		case "index_beyond":
			s[j].text = strconv.Itoa(n + drawInt(t, 1, 1000, "beyond"))
		case "index_negative":
			s[j].text = "-" + strconv.Itoa(drawInt(t, 1, 3, "neg"))
		case "non_numeric_index":
			s[j].text = []string{"x", s[j].text + "x", "1e1", " 1", "1 ", "one", "½"}[drawInt(t, 0, 6, "nn")]
		case "index_overflow":
			// beyond the int range; some of them land on an existing element when the digits are
			// accumulated modulo 2^64 (2^64 + k, 3*2^64 + k) or modulo 2^32
			k := 0
			if n > 0 {
				k = drawIdx(t, n, "wrapto")
			}
			two64 := new(big.Int).Lsh(big.NewInt(1), 64)
			s[j].text = []string{"1" + strings.Repeat("0", 20),
				new(big.Int).Add(two64, big.NewInt(int64(k))).String(),
				new(big.Int).Add(new(big.Int).Mul(two64, big.NewInt(3)), big.NewInt(int64(k))).String(),
				"9223372036854775808", strconv.Itoa(1<<32 + k), new(big.Int).Add(new(big.Int).Lsh(big.NewInt(1), 63), big.NewInt(int64(k))).String(),
				// 2^64 - m and 2^32 - m: a small negative number once the digits are squeezed into a signed word
				new(big.Int).Sub(two64, big.NewInt(int64(1+k))).String(), "18446744073709551615", strconv.Itoa(1<<32 - 1 - k),
				new(big.Int).Sub(new(big.Int).Lsh(big.NewInt(1), 63), big.NewInt(int64(1+k))).String()}[drawInt(t, 0, 9, "ovf")]
		case "noncanonical_index":
			s[j].text = []string{"0" + s[j].text, "+" + s[j].text, "0x" + s[j].text, "-0", "0b1", "1_0", "00"}[drawInt(t, 0, 6, "nc")]
		}
	case "key_misspelt":
		j := -1
		for k := range s {
			if s[(i+k)%len(s)].sigil == '.' {
				j = (i + k) % len(s)
				break
			}
		}
		if j < 0 {
			s = append(s, tfSeg{'.', "nokey"})
		} else {
			s[j].text = []string{s[j].text + "x", "zz", strings.ToUpper(s[j].text) + "_", s[j].text + " "}[drawInt(t, 0, 3, "ms")]
		}
	case "trailing_sigil":
		return joinTF(s) + []string{".", "#"}[drawInt(t, 0, 1, "ts")], kind
	case "leading_sigil_removed":
		return joinTF(s)[1:], kind
	case "leading_sigil_wrong":
		p := joinTF(s)
		if p[0] == '.' {
			return "#" + p[1:], kind
		}
		return "." + p[1:], kind
	case "double_leading":
		p := joinTF(s)
		return p[:1] + p, kind
	case "empty_segment":
		p := joinTF(s[:i]) + []string{"..", "##", ".#", "#."}[drawInt(t, 0, 3, "es")] + strings.TrimLeft(joinTF(s[i:]), ".#")
		return p, kind
	case "extra_segment":
		s = append(s, []tfSeg{{'.', "a"}, {'#', "0"}, {'.', "zz"}, {'#', "1"}}[drawInt(t, 0, 3, "xs")])
	}
	return joinTF(s), kind
}

func GenC10(t *rapid.T) *C10Case {
	if oneIn(t, 1500, "storm") {
		return &C10Case{Root: VList(), Class: "storm", Storm: []int{700, 1100, 1700, 2187}[drawIdx(t, 4, "nstorm")]}
	}
	c := genC10(t)
	if drawBool(t, "variant") {
		c.Build = 1 + genRaw(t)
	}
	if oneIn(t, 5, "derived") {
		c.Derived = drawInt(t, 1, 3, "every")
	}
	c.Latin1 = oneIn(t, 5, "latin1")
	if oneIn(t, 3, "rereads") {
		ops := []string{"add", "insert", "replace", "delete", "pop", "clear", "reverse", "set", "unset", "oclear", "noop", "rekey", "clearrefill"}
		for i, n := 0, drawInt(t, 1, 3, "nmuts"); i < n; i++ {
			c.Muts = append(c.Muts, CloneMut{Node: genRaw(t), Op: ops[drawIdx(t, len(ops), "mop")], A: genRaw(t),
				Key: tfKeys[drawIdx(t, len(tfKeys), "mkey")], V: genValSpec(t, 2)})
		}
	}
	return c
}

func genC10(t *rapid.T) *C10Case {
	cfg := tfTreeCfg()
	class := pick(t, "class", 40, 45, 15)
	if class == 0 && oneIn(t, 4, "distractors") {
		// unaddressable distractor keys only together with resolvable paths
		cfg.KeyGen = func(t *rapid.T) string {
			if oneIn(t, 4, "dk") {
				return []string{"", "a.b", "#1", ".a", "a#0"}[drawInt(t, 0, 4, "dkk")]
			}
			return tfKeyGen(t)
		}
	} else if class != 0 {
		// the empty key is legal in an object but not addressable: a path with an empty segment must
		// stay unresolved even when the object it is applied to owns the key ""
		cfg.KeyGen = func(t *rapid.T) string {
			if oneIn(t, 6, "emptykey") {
				return ""
			}
			return tfKeyGen(t)
		}
	}
	// roots with at least one child, deeper than the default
	n := drawInt(t, 1, 4, "rootw")
	var root V
	if drawBool(t, "rootlist") {
		root = V{K: KList}
		for i := 0; i < n; i++ {
			root.L = append(root.L, GenValue(t, cfg, 4))
		}
	} else {
		root = V{K: KObject}
		seen := map[string]bool{}
		for i := 0; i < n; i++ {
			k := genKey(t, cfg)
			if seen[k] {
				continue
			}
			seen[k] = true
			root.O = append(root.O, Pair{k, GenValue(t, cfg, 4)})
		}
	}
	maxSteps := 8
	if oneIn(t, 12, "deepchain") {
		// nesting (and paths) beyond any plausible depth guard
		chainCfg := cfg
		chainCfg.LongLists = false
		inner := GenChain(t, chainCfg, 70)
		if root.K == KList {
			root.L = append([]V{inner}, root.L...)
		} else if _, dup := root.Field("chain"); !dup {
			root.O = append([]Pair{{"chain", inner}}, root.O...)
		}
		maxSteps = 80
	}
	switch class {
	case 0:
		segs := randomWalk(t, root, maxSteps)
		if len(segs) == 0 {
			return &C10Case{Root: root, Path: ".a", Class: "resolvable_or_missing"}
		}
		return &C10Case{Root: root, Path: joinTF(segs), Class: "resolvable"}
	case 1:
		segs := randomWalk(t, root, maxSteps)
		p, kind := corruptPath(t, root, segs)
		return &C10Case{Root: root, Path: p, Class: "corrupt." + kind}
	}
	alphabet := []string{".", "#", "0", "1", "2", "9", "a", "b", "k", "x", "-", ".a", "#0", "#1", ".k", "é"}
	m := drawInt(t, 0, 8, "len")
	var sb strings.Builder
	for i := 0; i < m; i++ {
		sb.WriteString(alphabet[drawIdx(t, len(alphabet), "ch")])
	}
	return &C10Case{Root: root, Path: sb.String(), Class: "arbitrary"}
}

func typeOfTF(c any, p string) at.Type {
	switch x := c.(type) {
	case at.List:
		return x.TypeOfTF(p)
	case at.Object:
		return x.TypeOfTF(p)
	}
	return at.TypeUndefined
}

func getTF(c any, p string) any {
	switch x := c.(type) {
	case at.List:
		return x.GetTF(p)
	case at.Object:
		return x.GetTF(p)
	}
	return nil
}

func typeOfAny(x any) at.Type {
	switch x.(type) {
	case nil:
		return at.TypeNil
	case bool:
		return at.TypeBool
	case int:
		return at.TypeInt
	case float64:
		return at.TypeFloat
	case string:
		return at.TypeString
	case at.List:
		return at.TypeList
	case at.Object:
		return at.TypeObject
	}
	return at.TypeUndefined
}

func CheckC10(c *C10Case, st *Stats) error {
	if c.Storm > 0 {
		return checkStorm(c, st)
	}
	if c.Root.K != KList && c.Root.K != KObject {
		return nil
	}
	if c.Latin1 {
		if r, ok := c.Root.Latin1Keys(); ok {
			cc := *c
			cc.Root, cc.Path = r, latin1(c.Path)
			cc.Muts = append([]CloneMut{}, c.Muts...)
			for i := range cc.Muts {
				cc.Muts[i].Key = latin1(cc.Muts[i].Key)
			}
			c = &cc
			if !utf8.ValidString(c.Path) {
				st.Count("path_with_invalid_utf8_key")
			}
		}
	}
	root := BuildVariant(c.Root, c.Build)
	if c.Derived > 0 {
		n := 0
		root = buildDerived(c.Root, c.Derived, &n, true)
		st.Count("with_derived_nested")
	}
	st.Count("class." + c.Class)
	outcome, err := c10Read(root, c, st, "")
	if err != nil {
		return err
	}
	// repeated reads with mutations of nested containers in between (made through their own handles)
	for i, m := range c.Muts {
		ids := Idents(root)
		target := ids[m.Node%len(ids)]
		var applied bool
		if p, panicked := catch(func() { applied = applyCloneMut(root, target, m) }); panicked {
			return errf("mutation %d (%s) between reads panicked: %v", i, m.Op, p)
		}
		if !applied {
			continue
		}
		st.Count("reread_after." + m.Op)
		if _, err := c10Read(root, c, nil, " (read again after a "+m.Op+" on a nested container)"); err != nil {
			return err
		}
	}
	segs, ok := parseTF(c.Path)
	both := false
	if ok && len(segs) >= 2 {
		d, h := false, false
		for _, s := range segs {
			if s.sigil == '.' {
				d = true
			} else {
				h = true
			}
		}
		both = d && h
	}
	if (outcome == tfResolved && both) || strings.HasPrefix(c.Class, "corrupt.") {
		st.MarkNonTrivial()
	}
	if outcome == tfResolved && both {
		st.Count("resolved.both_sigils")
	}
	return nil
}

// c10Read performs one TypeOfTF / GetTF pair and compares it with stepwise navigation of the tree as it is now.
func c10Read(root any, c *C10Case, st *Stats, when string) (tfOutcome, error) {
	before, err := TakeIdentSnap(root)
	if err != nil {
		return 0, err
	}
	want, outcome := resolveTF(root, c.Path, st)
	count := func(k string) {
		if st != nil {
			st.Count(k)
		}
	}
	var gotType at.Type
	if p, panicked := catch(func() { gotType = typeOfTF(root, c.Path) }); panicked {
		return 0, errf("TypeOfTF(%q) panicked%s: %v\n tree: %s", c.Path, when, p, before.Tree.Show())
	}
	var got any
	pv, getPanicked := catch(func() { got = getTF(root, c.Path) })
	switch outcome {
	case tfResolved:
		count("outcome.resolved")
		if getPanicked {
			return 0, errf("GetTF(%q) panicked%s (%v) although stepwise navigation reaches %s\n tree: %s", c.Path, when, pv, showAny(want), before.Tree.Show())
		}
		if !ifaceEq(got, want) {
			return 0, errf("GetTF(%q) = %s%s, stepwise navigation gives %s\n tree: %s", c.Path, showAny(got), when, showAny(want), before.Tree.Show())
		}
		if gotType != typeOfAny(want) {
			return 0, errf("TypeOfTF(%q) = %d%s, the value reached stepwise is %s (type %d)\n tree: %s", c.Path, gotType, when, showAny(want), typeOfAny(want), before.Tree.Show())
		}
	case tfUnresolved:
		count("outcome.unresolved")
		if gotType != at.TypeUndefined {
			return 0, errf("TypeOfTF(%q) = %d%s for a path that does not resolve; expected TypeUndefined\n tree: %s", c.Path, gotType, when, before.Tree.Show())
		}
		if !getPanicked {
			return 0, errf("GetTF(%q) returned %s%s for a path that does not resolve; it must panic\n tree: %s", c.Path, showAny(got), when, before.Tree.Show())
		}
	case tfAmbiguous:
		count("outcome.ambiguous_index_spelling")
	}
	after, err := TakeIdentSnap(root)
	if err != nil {
		return 0, err
	}
	if !before.Same(after) {
		return 0, errf("a tree-form read with path %q modified the tree%s: %s -> %s", c.Path, when, before.Tree.Show(), after.Tree.Show())
	}
	return outcome, nil
}

func init() {
	Register("C10",
		"trees with non-empty sigil-free keys (incl. numeric-looking keys, non-ASCII, spaces, keys with or ending in a backslash, keys with leading or trailing white space (next to their trimmed twins), keys made of shell-pattern characters (*, ?, [k]), and in one case of five keys re-encoded to bytes that are not valid UTF-8; with corrupted and arbitrary paths one key in six is the empty key, which no path may reach; long lists of 60-130 elements addressed near the end; chains of up to 70 levels walked with up to 80 segments; drawn construction routes) x paths from three classes: resolvable random walks (optionally in trees that also hold unaddressable distractor keys \"\", \"a.b\", \"#1\"), one-step corruptions of a resolvable path (15 kinds: segment dropped, sigil swapped, index = n, index > n, negative, key misspelt, trailing sigil, leading sigil removed/wrong/doubled, empty segment, non-numeric index, 21-digit index, one more segment past the end, non-canonical index spelling) and arbitrary strings over the path alphabet. Oracle: a resolver in the harness walks the implementation tree with Get/TypeOf/KeyExists/Count one segment at a time; resolvable => GetTF identical/equal and TypeOfTF = its kind; otherwise TypeOfTF = Undefined without panic and GetTF panics; index spellings outside canonical decimal that a base-0 or a base-10 integer parser accepts are only checked for panic-freedom; tree unchanged (content and identities). Non-trivial = resolved path with >= 2 segments using both sigils, or any corruption class. Distinct = distinct FNV-64a hash of the case JSON. Index corruptions include spellings that become a small negative number when squeezed into a signed word (2^64-1-k, 2^63-1-k, 2^32-1-k). One case in 1500 is a path storm: 700-2187 distinct resolvable 7-segment paths into one tree are read in one go and then all once more (GetTF and TypeOfTF against the value known by construction).",
		GenC10, CheckC10)
}
