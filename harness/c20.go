package harness

import (
	"fmt"
	"os"
	"path/filepath"
	"regexp"
	"strconv"
	"strings"
	"sync"
	"time"

	"pgregory.net/rapid"
)

// C20: parse errors cite the line on which the error was detected.

type C20Case struct {
	Text     string `json:"text"`
	Pos      int    `json:"pos"`      // byte offset of the character at which the error is detected
	ListRoot bool   `json:"listroot"` // which parser the document is for
	Kind     string `json:"kind"`     // injected error kind (informational)
	Depth    int    `json:"depth"`    // nesting depth of the error (informational; 0 = directly in the root)
	// Companions: further erroneous documents that other goroutines parse at the same time (each call
	// must cite its own line whatever else is being parsed)
	Companions []C20Doc `json:"companions,omitempty"`
	// Latin1: the text is re-encoded at check time so that U+0080..U+00FF become single bytes (a document
	// in a legacy encoding: not valid UTF-8); Pos is mapped accordingly. The JSON keeps the readable spelling.
	Latin1 bool `json:"latin1,omitempty"`
}

type C20Doc struct {
	Text     string `json:"text"`
	Pos      int    `json:"pos"`
	ListRoot bool   `json:"listroot"`
}

var invalidLiterals = []string{"tru", "1x", "bogus", "nul", "fals", "1.2.3", "--1", "1e", ".", "-", "e5", "NULL", "1,5"[:1] + "_", "0x", "é", "%d", "100%", "%s%s", "%!", "%v"}

var (
	badKeyStart = []string{"x", "1", ",", ":", "[", "{", "]", "é", "'", "n", "%"}
	badAfterKey = []string{"x", "=", "\"", ",", "}", "1", "é", ";", "%"}
	badAfterVal = []string{"x", "1", "]", ":", "[", "{", "é", "n", "%"}
)

type c20gen struct {
	t        *rapid.T
	sb       strings.Builder
	next     int // node id counter
	target   int
	kind     int // 1..5
	pos      int
	depthAt  int
	rawNL    bool
	injected bool
}

var c20ws = []string{"", "", " ", "\n", "\n\n", "\r\n", "\t", "\n  ", " \n", "\n\t\n", "\r", "\r\t", "\r\r\n", " \r "}

func (g *c20gen) ws() {
	g.sb.WriteString(c20ws[drawIdx(g.t, len(c20ws), "ws")])
}

func (g *c20gen) str(s string) {
	g.sb.WriteByte('"')
	for _, r := range s {
		switch {
		case r == '"' || r == '\\':
			g.sb.WriteByte('\\')
			g.sb.WriteRune(r)
		case (r == '\n' || r == '\r') && g.rawNL:
			if oneIn(g.t, 3, "bsnl") {
				g.sb.WriteByte('\\') // a backslash directly followed by the raw line break (lenient parsers accept it)
			}
			g.sb.WriteRune(r) // raw newline / carriage return inside a string: only '\n' is a newline character of the input
		case r < 0x20:
			fmt.Fprintf(&g.sb, `\u%04x`, r)
		default:
			g.sb.WriteRune(r)
		}
	}
	g.sb.WriteByte('"')
}

func (g *c20gen) scalar(v V) {
	switch v.K {
	case KNil:
		g.sb.WriteString("null")
	case KBool:
		g.sb.WriteString(strconv.FormatBool(v.B))
	case KInt:
		g.sb.WriteString(strconv.FormatInt(v.I, 10))
	case KFloat:
		g.sb.WriteString(strconv.FormatFloat(v.Float(), 'g', -1, 64))
	case KString:
		g.str(v.S)
	}
}

// value renders node v (id assigned in pre-order). It returns true when this
// node is a kind 1/2 target, i.e. the parent must record the delimiter position.
func (g *c20gen) value(v V, depth int) (pendingDelimiter bool) {
	id := g.next
	g.next++
	switch v.K {
	case KList:
		g.sb.WriteByte('[')
		for i, e := range v.L {
			g.ws()
			pend := g.value(e, depth+1)
			g.ws()
			if pend {
				g.pos = g.sb.Len()
				g.depthAt = depth
				g.injected = true
			}
			if i+1 < len(v.L) {
				g.sb.WriteByte(',')
			}
		}
		if len(v.L) == 0 {
			g.ws()
		}
		g.sb.WriteByte(']')
	case KObject:
		g.sb.WriteByte('{')
		for i, p := range v.O {
			g.ws()
			childID := g.next
			isTarget := childID == g.target && !g.injected
			if isTarget && g.kind == 3 {
				g.pos = g.sb.Len()
				g.depthAt = depth
				g.injected = true
				g.sb.WriteString(badKeyStart[drawIdx(g.t, len(badKeyStart), "bad")])
			}
			g.str(p.K)
			g.ws()
			if isTarget && g.kind == 4 {
				g.pos = g.sb.Len()
				g.depthAt = depth
				g.injected = true
				g.sb.WriteString(badAfterKey[drawIdx(g.t, len(badAfterKey), "bad")])
			}
			g.sb.WriteByte(':')
			g.ws()
			pend := g.value(p.V, depth+1)
			g.ws()
			if pend {
				g.pos = g.sb.Len()
				g.depthAt = depth
				g.injected = true
			}
			if isTarget && g.kind == 5 {
				g.pos = g.sb.Len()
				g.depthAt = depth
				g.injected = true
				g.sb.WriteString(badAfterVal[drawIdx(g.t, len(badAfterVal), "bad")])
				g.ws()
			}
			if i+1 < len(v.O) {
				g.sb.WriteByte(',')
			}
		}
		if len(v.O) == 0 {
			g.ws()
		}
		g.sb.WriteByte('}')
	default:
		if id == g.target && (g.kind == 1 || g.kind == 2) && !g.injected {
			g.sb.WriteString(invalidLiterals[drawIdx(g.t, len(invalidLiterals), "lit")])
			return true
		}
		g.scalar(v)
	}
	return false
}

type c20site struct {
	id, kind, depth int
}

// sites lists every (node, error kind) pair at which an error can be injected.
func c20sites(root V) []c20site {
	var out []c20site
	id := 0
	var rec func(v V, parent Kind, isRoot bool, d int)
	rec = func(v V, parent Kind, isRoot bool, d int) {
		my := id
		id++
		if !isRoot {
			scalarNonString := v.K == KNil || v.K == KBool || v.K == KInt || v.K == KFloat
			if scalarNonString && parent == KList {
				out = append(out, c20site{my, 1, d})
			}
			if scalarNonString && parent == KObject {
				out = append(out, c20site{my, 2, d})
			}
			if parent == KObject {
				out = append(out, c20site{my, 3, d}, c20site{my, 4, d})
				if v.K == KList || v.K == KObject {
					out = append(out, c20site{my, 5, d})
				}
			}
		}
		switch v.K {
		case KList:
			for _, e := range v.L {
				rec(e, KList, false, d+1)
			}
		case KObject:
			for _, p := range v.O {
				rec(p.V, KObject, false, d+1)
			}
		}
	}
	rec(root, 0, true, -1)
	return out
}

var c20kindNames = map[int]string{1: "invalid_literal_in_list", 2: "invalid_literal_in_object", 3: "bad_key_start", 4: "bad_after_key", 5: "bad_after_nested_value"}

func GenC20(t *rapid.T) *C20Case {
	c := genC20(t)
	if oneIn(t, 12, "concurrent") {
		for i, n := 0, drawInt(t, 1, 3, "ncomp"); i < n; i++ {
			d := genC20(t)
			c.Companions = append(c.Companions, C20Doc{Text: d.Text, Pos: d.Pos, ListRoot: d.ListRoot})
		}
	}
	return c
}

func genC20(t *rapid.T) *C20Case {
	cfg := TreeCfg{MaxDepth: 4, MaxWidth: 4, MaxStr: 6, KeyGen: func(t *rapid.T) string {
		return GenString(t, 4)
	}, LeafExtra: func(t *rapid.T) (V, bool) {
		// strings that a pre-processing pass might expand or strip: references to environment variables
		// (the harness sets VERIF_NL to a three-line value), comment openers
		if oneIn(t, 60, "longline") {
			// one physical line longer than the buffers file readers use (4 KiB, 64 KiB)
			return VStr(strings.Repeat("x", []int{4095, 4097, 6000, 20000, 65537}[drawIdx(t, 5, "linelen")])), true
		}
		if oneIn(t, 12, "expandable") {
			return VStr([]string{"${VERIF_NL}", "$VERIF_NL", "a // b", "/* x", "${HOME}", "%VERIF_NL%", "caf\u00e9", "\u00ff\u00fe", "na\u00efve\n\u00e9"}[drawIdx(t, 9, "xs")]), true
		}
		return V{}, false
	}}
	var root V
	var sites []c20site
	for attempt := 0; ; attempt++ {
		// construction, not rejection: ensure at least one site by appending a member/element
		n := drawInt(t, 1, 4, "rootw")
		if drawBool(t, "rootlist") {
			root = V{K: KList}
			for i := 0; i < n; i++ {
				root.L = append(root.L, GenValue(t, cfg, 3))
			}
			root.L = append(root.L, VInt(drawInt(t, 0, 9, "pad")))
		} else {
			root = V{K: KObject}
			seen := map[string]bool{}
			for i := 0; i < n; i++ {
				k := genKey(t, cfg)
				if seen[k] {
					continue
				}
				seen[k] = true
				root.O = append(root.O, Pair{k, GenValue(t, cfg, 3)})
			}
			if len(root.O) == 0 {
				root.O = append(root.O, Pair{"k", VInt(1)})
			}
		}
		sites = c20sites(root)
		if len(sites) > 0 {
			break
		}
	}
	// weight kinds evenly: draw a kind present among the sites, then a site of that kind
	// favour errors inside nested containers (site depth >= 1) when there are any
	var nested []c20site
	for _, s := range sites {
		if s.depth >= 1 {
			nested = append(nested, s)
		}
	}
	if len(nested) > 0 && drawInt(t, 0, 9, "nested") < 7 {
		sites = nested
	}
	kinds := map[int][]c20site{}
	for _, s := range sites {
		kinds[s.kind] = append(kinds[s.kind], s)
	}
	var present []int
	for k := 1; k <= 5; k++ {
		if len(kinds[k]) > 0 {
			present = append(present, k)
		}
	}
	kind := present[drawIdx(t, len(present), "kind")]
	// prefer deep sites: draw two, keep the later (deeper in pre-order on average)
	cands := kinds[kind]
	si := drawIdx(t, len(cands), "site")
	if sj := drawIdx(t, len(cands), "site2"); sj > si {
		si = sj
	}
	g := &c20gen{t: t, target: cands[si].id, kind: kind, rawNL: oneIn(t, 10, "rawnl")}
	// line numbers beyond 255 / 65535 (a counter that is too narrow): many newlines before the root
	if oneIn(t, 25, "manylines") {
		n := []int{255, 256, 257, 300, 1000}[drawIdx(t, 5, "nl")]
		if (Thorough() && drawBool(t, "huge")) || (!Thorough() && oneIn(t, 8, "huge")) {
			n = []int{65535, 65536, 70000, 131072}[drawIdx(t, 4, "nlh")]
		}
		g.sb.WriteString(strings.Repeat("\n", n))
	}
	// optional text before the root bracket (may contain newlines and any bracket except the one that opens the root)
	if oneIn(t, 3, "prefix") {
		parts := []string{"garbage", "\n", "\n\n", " ", "x=1;", "\r\n", "// comment\n", "\t", "é\n"}
		// brackets that do not open the root: those of the other container kind, and closing ones
		// things a tolerant pre-pass might strip or expand, newlines included
		parts = append(parts, "/* licence\n text\n*/", "// note\n", "<!--\n-->\n", "#!shebang\n", "$VERIF_NL", "/*\n\n*/\n")
		if oneIn(t, 10, "longprefix") {
			parts = append(parts, strings.Repeat(" ", 5000)+"\n", strings.Repeat("-", 70000)+"\n")
		}
		if root.K == KList {
			parts = append(parts, "{", "${VAR}\n", "${VERIF_NL}", "}", "]", "{\"k\":1}\n")
		} else {
			parts = append(parts, "[", "[INFO] x\n", "]", "}", "[1,2]\n")
		}
		n := drawInt(t, 1, 5, "np")
		for i := 0; i < n; i++ {
			g.sb.WriteString(parts[drawIdx(t, len(parts), "pp")])
		}
	}
	g.value(root, 0)
	// trailing text
	if drawBool(t, "trail") {
		g.sb.WriteString("\n\n")
	}
	if !g.injected {
		// cannot happen by construction; make it visible if it does
		panic("C20 generator failed to inject an error")
	}
	return &C20Case{Text: g.sb.String(), Pos: g.pos, ListRoot: root.K == KList, Kind: c20kindNames[kind], Depth: g.depthAt, Latin1: oneIn(t, 6, "latin1")}
}

// lineRe: the cited line is the number behind the LAST "on line" of the message (text echoed from the
// document comes first; a message may go on after the number, e.g. with a column).
var lineRe = regexp.MustCompile(`on line (\d+)`)

func CheckC20(c *C20Case, st *Stats) error {
	if c.Latin1 && c.Pos >= 0 && c.Pos <= len(c.Text) {
		cc := *c
		cc.Text, cc.Pos = latin1(c.Text), len(latin1(c.Text[:c.Pos]))
		if cc.Text != c.Text {
			st.Count("legacy_encoding_document")
		}
		c = &cc
	}
	if err := checkC20Doc(c, st); err != nil {
		return err
	}
	if len(c.Companions) == 0 {
		return nil
	}
	// the same document and its companions parsed by several goroutines at the same time
	st.Count("concurrent_parses")
	docs := append([]C20Doc{{Text: c.Text, Pos: c.Pos, ListRoot: c.ListRoot}}, c.Companions...)
	errs := make([]error, len(docs))
	start := make(chan struct{})
	var wg sync.WaitGroup
	for i := range docs {
		wg.Add(1)
		go func(i int) {
			defer wg.Done()
			<-start
			d := docs[i]
			for rep := 0; rep < 8 && errs[i] == nil; rep++ {
				errs[i] = checkC20Doc(&C20Case{Text: d.Text, Pos: d.Pos, ListRoot: d.ListRoot, Kind: "companion"}, nil, fmt.Sprintf("-g%d", i))
			}
		}(i)
	}
	close(start)
	wg.Wait()
	for i, e := range errs {
		if e != nil {
			return errf("while %d other documents were being parsed concurrently (document %d): %v", len(docs)-1, i, e)
		}
	}
	return nil
}

func checkC20Doc(c *C20Case, st *Stats, fileTag ...string) error {
	if st == nil {
		st = NewStats()
	}
	if c.Pos < 0 || c.Pos >= len(c.Text) {
		return nil
	}
	want := 1 + strings.Count(c.Text[:c.Pos], "\n")
	rootBracket := "{"
	if c.ListRoot {
		rootBracket = "["
	}
	rootAt := strings.Index(c.Text, rootBracket)
	nlBeforeRoot := rootAt > 0 && strings.Contains(c.Text[:rootAt], "\n")
	if (want > 1 && c.Depth >= 1) || nlBeforeRoot {
		st.MarkNonTrivial()
	}
	st.Count("kind." + c.Kind)
	if nlBeforeRoot {
		st.Count("newline_before_root")
	}
	if c.Depth >= 1 {
		st.Count("nested_error")
	}
	checkErr := func(name string, err error, container bool) error {
		if container {
			return errf("%s returned a container together with an error", name)
		}
		if err == nil {
			st.Count("accepted." + name)
			return nil // conditional property: nothing is claimed when the text is not rejected
		}
		all := lineRe.FindAllStringSubmatch(err.Error(), -1)
		if all == nil {
			st.Count("no_line_cited." + name)
			return nil
		}
		m := all[len(all)-1]
		st.Count("line_cited." + name)
		got, _ := strconv.Atoi(m[1])
		if got != want {
			return errf("%s cites line %d, the error is detected at byte %d (%q) which is on line %d\n message: %s\n text: %q",
				name, got, c.Pos, clip(c.Text[c.Pos:], 6), want, err.Error(), clip(c.Text, 500))
		}
		return nil
	}
	if c.ListRoot {
		o, gerr := guarded("ParseList", callParseList(c.Text))
		if gerr != nil {
			return errf("%v on %q", gerr, clip(c.Text, 300))
		}
		return checkErr("ParseList", o.err, o.c != nil)
	}
	o, gerr := guarded("ParseObject", callParseObject(c.Text))
	if gerr != nil {
		return errf("%v on %q", gerr, clip(c.Text, 300))
	}
	if err := checkErr("ParseObject", o.err, o.c != nil); err != nil {
		return err
	}
	path := filepath.Join(scratchDir(), "c20"+strings.Join(fileTag, "")+".json") // one file per concurrent goroutine
	stamp, restamp := time.Unix(1700000000, 0), false
	if len(c.Text) >= 8 && (len(c.Text)+c.Pos)%3 == 0 {
		// the path held another document of exactly the same length before (its error on another line) and
		// was read; the new content arrives with the old modification time, as cp -p / rsync -t / tar leave it
		decoy := "{\n\n\n\nx" + strings.Repeat(" ", len(c.Text)-6)
		if os.WriteFile(path, []byte(decoy), 0o600) == nil && os.Chtimes(path, stamp, stamp) == nil {
			guarded("ParseFile", callParseFile(path))
			restamp = true
			st.Count("file_replaced_same_size_and_mtime")
		}
	}
	if werr := os.WriteFile(path, []byte(c.Text), 0o600); werr != nil {
		return &HarnessBug{fmt.Sprintf("cannot write scratch file: %v", werr)}
	}
	if restamp {
		os.Chtimes(path, stamp, stamp)
	}
	f, gerr := guarded("ParseFile", callParseFile(path))
	if gerr != nil {
		return errf("%v on %q", gerr, clip(c.Text, 300))
	}
	return checkErr("ParseFile", f.err, f.c != nil)
}

func init() {
	Register("C20",
		"a generated tree is rendered with drawn whitespace/newlines at every token boundary (LF, CRLF, blank lines, occasionally a raw newline inside a string, now and then a string or a prefix line of 4095-70000 bytes), optional text with newlines before the root (multi-line block comments, line comments, references to a multi-line environment variable, any bracket but the one that opens the root, e.g. an '[INFO]' log prefix before an object) (occasionally 255-1000 blank lines, now and then 65535-131072), bare CR and CR LF layouts, and exactly one injected syntax error of a kind whose message cites a line (invalid literal in a list / as an object value, detected at its terminating delimiter; bad character where a key must start; bad character after a key; bad character after a nested container in an object), at a drawn nesting depth; the generator records the byte offset of the detecting character. Oracle: if the error text says 'on line N' (the last such phrase counts) then N == 1 + number of newline bytes before that offset; via ParseList, ParseObject and ParseFile; one document in six is re-encoded to Latin-1 bytes (ill-formed UTF-8: usually rejected without a line, but if a line is cited it must be the right one). Non-trivial = at least one newline before the error and the error inside a nested container, or newlines in text before the root bracket. Distinct = distinct FNV-64a hash of the case JSON. One ParseFile case in three first stores and reads a decoy of exactly the same length (error on another line) under the same path and then replaces it with the document, restoring the modification time.",
		GenC20, CheckC20)
}
