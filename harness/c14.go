package harness

import (
	"fmt"
	"math"
	"reflect"
	"sort"
	"strconv"
	"strings"

	at "github.com/DanielSvub/anytype"
	"pgregory.net/rapid"
)

// C14: typed views select exactly the elements of their kind, in order, each once.

type C14Case struct {
	Kinds  []Kind `json:"kinds"`  // kind of every element; the value encodes the position
	Object bool   `json:"object"` // fields "k<i>" of an object instead of list elements
	Pred   int    `json:"pred"`   // predicate selector for the Filter variants
	Route  int    `json:"route"`  // construction route of the list (see listByRoute)
	// Derived: list/object elements are user-defined derived types (embedding List/Object, registered with Init)
	Derived bool `json:"derived,omitempty"`
	// Muts: later mutations; all views are checked again after each
	Muts []ViewMut `json:"muts,omitempty"`
	// Res > 0: the Map variants are probed a second time with callbacks that return something else than
	// a tag string: 1 always nil, 2 nil for about half of the values and the value itself otherwise,
	// 3 the zero value of the element's kind (the value itself for nil and containers)
	Res int `json:"res,omitempty"`
	// NonFinite: some float elements are +Inf, -Inf or NaN (ordinary float64 values for every view)
	NonFinite bool `json:"nonfinite,omitempty"`
	// Big > 0: Kinds is not spelled out but built at check time: Big elements of kind BigKind, except that
	// (BigOdd >= 0) the element BigOdd positions before the end has kind OddKind (a single stray element
	// at the far end of a list of thousands: what a chunked or parallel predicate must still see)
	Big     int  `json:"big,omitempty"`
	BigKind Kind `json:"bigkind,omitempty"`
	BigOdd  int  `json:"bigodd,omitempty"`
	OddKind Kind `json:"oddkind,omitempty"`
}

// nonFinite is set for the duration of one case; the processes are single-threaded per case.
var nonFinite bool

// mapResult is the callback result of the second Map pass.
func mapResult(mode int, x any) any {
	switch mode {
	case 1:
		return nil
	case 2:
		h := 0
		for _, b := range []byte(tagOf(x)) {
			h = h*31 + int(b)
		}
		if h%2 == 0 {
			return nil
		}
		return x
	}
	switch x.(type) {
	case int:
		return 0
	case float64:
		return 0.0
	case string:
		return ""
	case bool:
		return false
	}
	return x
}

type ViewMut struct {
	Op   string `json:"op"`
	A    int    `json:"a,omitempty"`
	Kind int    `json:"kind,omitempty"`
}

func GenC14(t *rapid.T) *C14Case {
	n := []int{0, 1, 2, 3, 4, 5, 6, 7, 8, 10, 12, 16, 5, 7, 9, 33, 64, 65, 100, 130, 3, 4, 6, 257}[drawIdx(t, 24, "n")]
	// a small alphabet with repetition: 2-4 kinds out of 7
	nk := drawInt(t, 1, 4, "nk")
	alphabet := make([]Kind, nk)
	for i := range alphabet {
		alphabet[i] = Kind(drawIdx(t, 7, "kind"))
	}
	if oneIn(t, 200, "big") {
		big := &C14Case{Big: []int{1025, 2049, 4096, 4097, 4098, 4099, 4099, 8191}[drawIdx(t, 8, "bign")], BigKind: Kind(drawIdx(t, 7, "kind")),
			BigOdd: drawInt(t, -1, 4, "bigodd"), OddKind: Kind(drawIdx(t, 7, "oddkind")), Pred: drawInt(t, 0, 3, "pred"), Route: drawInt(t, 0, numListRoutes-1, "route")}
		if big.BigKind == KList || big.BigKind == KObject {
			big.BigKind = KInt
		}
		return big
	}
	c := &C14Case{Object: oneIn(t, 3, "obj"), Pred: drawInt(t, 0, 3, "pred"), Route: drawInt(t, 0, numListRoutes-1, "route"), Derived: oneIn(t, 4, "derived")}
	if drawBool(t, "respass") {
		c.Res = drawInt(t, 1, 3, "res")
	}
	c.NonFinite = oneIn(t, 4, "nonfinite")
	for i := 0; i < n; i++ {
		c.Kinds = append(c.Kinds, alphabet[drawIdx(t, nk, "k")])
	}
	if oneIn(t, 3, "mutate") {
		ops := []string{"add", "insert", "replace", "delete", "pop", "reverse", "set", "unset", "clear"}
		for i, k := 0, drawInt(t, 1, 3, "nmuts"); i < k; i++ {
			c.Muts = append(c.Muts, ViewMut{Op: ops[drawIdx(t, len(ops), "mop")], A: genRaw(t), Kind: int(alphabet[drawIdx(t, nk, "mk")])})
		}
	}
	return c
}

// elemValue: pairwise distinct values that encode their position. Position 0 and every
// seventh position hold the zero value of the kind (at most one zero per kind and container is
// guaranteed distinct by the caller using elemValueZ).
func elemValue(k Kind, i int) any { return elemValueZ(k, i, false) }

func elemValueZ(k Kind, i int, zero bool) any {
	if zero {
		switch k {
		case KInt:
			return 0
		case KFloat:
			return 0.0
		case KString:
			return ""
		}
	}
	switch k {
	case KNil:
		return nil
	case KBool:
		return i%2 == 0
	case KInt:
		return 100 + i
	case KFloat:
		if nonFinite {
			switch i % 5 {
			case 1:
				return math.Inf(1)
			case 2:
				return math.Inf(-1)
			case 3:
				return math.NaN()
			}
		}
		return float64(i) + 0.5
	case KString:
		return fmt.Sprintf("s%d", i)
	case KList:
		return at.NewList(i, "second")
	case KObject:
		return at.NewObject("pos", i)
	}
	return nil
}

// tagOf is an injective description of a value (containers by their position payload).
func tagOf(x any) string {
	switch v := x.(type) {
	case nil:
		return "nil"
	case bool:
		return fmt.Sprintf("b:%v", v)
	case int:
		return fmt.Sprintf("i:%d", v)
	case float64:
		return fmt.Sprintf("f:%x", math.Float64bits(v))
	case string:
		return "s:" + v
	case at.List:
		if v.Count() == 0 {
			return "l:empty"
		}
		return fmt.Sprintf("l:%v", scalarText(v.Get(0)))
	case at.Object:
		if !v.KeyExists("pos") {
			return fmt.Sprintf("o:%d fields", v.Count())
		}
		return fmt.Sprintf("o:%v", v.Get("pos"))
	}
	return fmt.Sprintf("?%T", x)
}

func predFor(sel int) func(call int, x any) bool {
	switch sel % 4 {
	case 0:
		return func(int, any) bool { return true }
	case 1:
		return func(int, any) bool { return false }
	case 2:
		return func(call int, _ any) bool { return call%2 == 0 }
	}
	return func(_ int, x any) bool { return len(tagOf(x))%2 == 0 }
}

func tagsOfList(l at.List) []string {
	out := make([]string, l.Count())
	for i := range out {
		out[i] = tagOf(l.Get(i))
	}
	return out
}

func eqStrings(a, b []string) bool {
	if len(a) != len(b) {
		return false
	}
	for i := range a {
		if a[i] != b[i] {
			return false
		}
	}
	return true
}

var classifiedListMethods = map[string]bool{}
var classifiedObjectMethods = map[string]bool{}

func init() {
	for _, k := range []string{"Object", "List", "String", "Bool", "Int", "Float"} {
		for _, m := range []string{k + "Slice", "ForEach" + k, "Map" + k + "s", "Filter" + k + "s", "All" + k + "s", "Reduce" + k + "s"} {
			classifiedListMethods[m] = true
		}
		for _, m := range []string{"ForEach" + k, "Map" + k + "s"} {
			classifiedObjectMethods[m] = true
		}
	}
	for _, m := range []string{"AllNumeric", "ForEach", "ForEachValue", "Map", "MapValues", "Filter", "Reduce", "Slice"} {
		classifiedListMethods[m] = true
	}
	for _, m := range []string{"ForEach", "ForEachValue", "Map", "MapValues"} {
		classifiedObjectMethods[m] = true
	}
}

// unclassifiedViews reports view-like methods of the interfaces the check does not know (never a violation).
func unclassifiedViews(st *Stats) {
	look := func(t reflect.Type, known map[string]bool, who string) {
		for i := 0; i < t.NumMethod(); i++ {
			n := t.Method(i).Name
			for _, pre := range []string{"ForEach", "Map", "Filter", "Reduce", "All"} {
				if strings.HasPrefix(n, pre) && !known[n] && n != "MapAsync" && n != "ForEachAsync" {
					st.Count("unclassified." + who + "." + n)
				}
			}
			if strings.HasSuffix(n, "Slice") && !known[n] && n != "NativeSlice" {
				st.Count("unclassified." + who + "." + n)
			}
		}
	}
	look(reflect.TypeOf((*at.List)(nil)).Elem(), classifiedListMethods, "List")
	look(reflect.TypeOf((*at.Object)(nil)).Elem(), classifiedObjectMethods, "Object")
}

func checkListViews(c *C14Case, st *Stats) error {
	n := len(c.Kinds)
	vals := make([]any, n)
	shape := V{K: KList}
	firstOfKind := map[Kind]bool{}
	for i, k := range c.Kinds {
		vals[i] = deriveIf(c.Derived, elemValueZ(k, i, !firstOfKind[k] && c.Pred%2 == 0))
		firstOfKind[k] = true
		if sv, err := Snap(vals[i]); err == nil && k != KList && k != KObject {
			shape.L = append(shape.L, sv)
		} else {
			shape.L = append(shape.L, V{K: k})
		}
	}
	l := listByRoute(shape, vals, c.Route%numListRoutes, c.Pred)
	st.Count(fmt.Sprintf("route.%d", c.Route%numListRoutes))
	if pl := parsedTwin(c, vals); pl != nil {
		// the same elements obtained from the parser, numbers in spellings that are not the serialiser's own
		l = pl
		st.Count("route.parsed_text")
	}
	if err := verifyListViews(l, vals, c.Kinds, c.Pred, c.Res, st); err != nil {
		return err
	}
	// the list changes; every view must describe it as it is then (expectations are re-derived from
	// Get/TypeOf, which do not depend on the views)
	for mi, m := range c.Muts {
		cnt := l.Count()
		fresh := deriveIf(c.Derived, elemValueZ(Kind(m.Kind%7), 1000+mi, false))
		switch m.Op {
		case "add":
			l.Add(fresh)
		case "insert":
			at := 0
			if cnt > 0 {
				at = m.A % cnt
			}
			l.Insert(at, fresh)
		case "replace":
			if cnt == 0 {
				continue
			}
			l.Replace(m.A%cnt, fresh)
		case "delete":
			if cnt == 0 {
				continue
			}
			l.Delete(m.A % cnt)
		case "pop":
			if cnt == 0 {
				continue
			}
			l.Pop()
		case "reverse":
			l.Reverse()
		case "clear":
			// emptied and refilled with the same elements plus one
			old := l.Slice()
			l.Clear()
			l.Add(old...)
			l.Add(fresh)
		default:
			continue
		}
		st.Count("reviewed_after." + m.Op)
		nowVals := make([]any, l.Count())
		nowKinds := make([]Kind, l.Count())
		for i := range nowVals {
			nowVals[i] = l.Get(i)
			k, ok := kindOfType(l.TypeOf(i))
			if !ok {
				return errf("after %s: TypeOf(%d) undefined", m.Op, i)
			}
			nowKinds[i] = k
		}
		if err := verifyListViews(l, nowVals, nowKinds, c.Pred, c.Res, NewStats()); err != nil {
			return errf("after a later %s: %v", m.Op, err)
		}
	}
	return nil
}

// parsedTwin returns the list the library's parser builds for a text holding the scalar elements of the
// case (floats spelled 3.50 / 3.5e0 / 35E-1, ints with an exponent-free spelling), or nil if the case has
// container / non-finite / derived elements, is not selected (one case in four), or the parsed list does not
// hold exactly these values and kinds (which is the business of C03).
func parsedTwin(c *C14Case, vals []any) at.List {
	if c.Derived || c.NonFinite || c.Route%4 != 1 || len(vals) == 0 {
		return nil
	}
	var sb strings.Builder
	sb.WriteByte('[')
	for i, v := range vals {
		if i > 0 {
			sb.WriteByte(',')
		}
		switch x := v.(type) {
		case nil:
			sb.WriteString("null")
		case bool:
			sb.WriteString(strconv.FormatBool(x))
		case int:
			sb.WriteString(strconv.Itoa(x))
		case float64:
			switch i % 3 {
			case 0:
				sb.WriteString(strconv.FormatFloat(x, 'f', 2, 64))
			case 1:
				sb.WriteString(strconv.FormatFloat(x, 'f', 1, 64) + "e0")
			default:
				sb.WriteString(strconv.FormatFloat(x*10, 'f', 0, 64) + "E-1")
			}
		case string:
			sb.WriteString(strconv.Quote(x))
		default:
			return nil
		}
	}
	sb.WriteByte(']')
	var l at.List
	if _, panicked := catch(func() { l, _ = at.ParseList(sb.String()) }); panicked || l == nil || l.Count() != len(vals) {
		return nil
	}
	for i, v := range vals {
		if !ifaceEq(l.Get(i), v) || l.TypeOf(i) != typeOfAny(v) {
			return nil
		}
	}
	return l
}

func verifyListViews(l at.List, vals []any, kinds []Kind, predSel int, resMode int, st *Stats) error {
	n := len(kinds)
	before, _ := TakeIdentSnap(l)
	// expected subsequences
	sub := map[Kind][]any{}
	for i, k := range kinds {
		sub[k] = append(sub[k], vals[i])
	}
	tags := func(xs []any) []string {
		out := make([]string, len(xs))
		for i, x := range xs {
			out[i] = tagOf(x)
		}
		return out
	}
	all := tags(vals)
	fail := func(what string, got, want []string) error {
		return errf("%s on a list of kinds %v: got %v, expected %v", what, kinds, got, want)
	}
	same := func(what string, got, want []string) error {
		if !eqStrings(got, want) {
			return fail(what, got, want)
		}
		return nil
	}
	idSame := func(what string, got []any, want []any) error {
		if len(got) != len(want) {
			return fail(what, tags(got), tags(want))
		}
		for i := range got {
			if !ifaceEq(got[i], want[i]) {
				return errf("%s: element %d is not the identical/equal value (%s vs %s)", what, i, showAny(got[i]), showAny(want[i]))
			}
		}
		return nil
	}
	var log []any
	reset := func() { log = nil }
	pred := predFor(predSel)
	expectFilter := func(xs []any) []any {
		var out []any
		for call, x := range xs {
			if pred(call, x) {
				out = append(out, x)
			}
		}
		return out
	}
	listVals := func(r at.List) []any { return r.Slice() }
	type kindOps struct {
		k       Kind
		slice   func() []any
		forEach func()
		mapX    func() at.List
		filter  func() at.List // nil if the API has none
		allX    func() bool
	}
	calls := 0
	var res func(any) any = func(x any) any { return tagOf(x) }
	ops := []kindOps{
		{KObject, func() []any {
			var o []any
			for _, x := range l.ObjectSlice() {
				o = append(o, x)
			}
			return o
		}, func() { l.ForEachObject(func(x at.Object) { log = append(log, x) }) },
			func() at.List { return l.MapObjects(func(x at.Object) any { return res(x) }) },
			func() at.List { return l.FilterObjects(func(x at.Object) bool { calls++; return pred(calls-1, x) }) }, l.AllObjects},
		{KList, func() []any {
			var o []any
			for _, x := range l.ListSlice() {
				o = append(o, x)
			}
			return o
		}, func() { l.ForEachList(func(x at.List) { log = append(log, x) }) },
			func() at.List { return l.MapLists(func(x at.List) any { return res(x) }) },
			func() at.List { return l.FilterLists(func(x at.List) bool { calls++; return pred(calls-1, x) }) }, l.AllLists},
		{KString, func() []any {
			var o []any
			for _, x := range l.StringSlice() {
				o = append(o, x)
			}
			return o
		}, func() { l.ForEachString(func(x string) { log = append(log, x) }) },
			func() at.List { return l.MapStrings(func(x string) any { return res(x) }) },
			func() at.List { return l.FilterStrings(func(x string) bool { calls++; return pred(calls-1, x) }) }, l.AllStrings},
		{KBool, func() []any {
			var o []any
			for _, x := range l.BoolSlice() {
				o = append(o, x)
			}
			return o
		}, func() { l.ForEachBool(func(x bool) { log = append(log, x) }) },
			func() at.List { return l.MapBools(func(x bool) any { return res(x) }) },
			nil, l.AllBools},
		{KInt, func() []any {
			var o []any
			for _, x := range l.IntSlice() {
				o = append(o, x)
			}
			return o
		}, func() { l.ForEachInt(func(x int) { log = append(log, x) }) },
			func() at.List { return l.MapInts(func(x int) any { return res(x) }) },
			func() at.List { return l.FilterInts(func(x int) bool { calls++; return pred(calls-1, x) }) }, l.AllInts},
		{KFloat, func() []any {
			var o []any
			for _, x := range l.FloatSlice() {
				o = append(o, x)
			}
			return o
		}, func() { l.ForEachFloat(func(x float64) { log = append(log, x) }) },
			func() at.List { return l.MapFloats(func(x float64) any { return res(x) }) },
			func() at.List { return l.FilterFloats(func(x float64) bool { calls++; return pred(calls-1, x) }) }, l.AllFloats},
	}
	for _, op := range ops {
		want := sub[op.k]
		name := op.k.String()
		if err := idSame(name+" typed slice", op.slice(), want); err != nil {
			return err
		}
		reset()
		op.forEach()
		if err := idSame("ForEach<"+name+">", log, want); err != nil {
			return err
		}
		if err := same("Map<"+name+">", tagsAsStrings(op.mapX()), tags(want)); err != nil {
			return err
		}
		if resMode > 0 {
			// second pass: the callback returns nil / the value itself / a zero value
			res = func(x any) any { return mapResult(resMode, x) }
			got := op.mapX()
			res = func(x any) any { return tagOf(x) }
			if got.Count() != len(want) {
				return errf("Map<%s> with a callback returning nil or zero values produced %d elements for %d elements of that kind (%s)", name, got.Count(), len(want), clip(got.String(), 200))
			}
			for i, x := range want {
				exp := mapResult(resMode, x)
				if g := got.Get(i); !ifaceEq(g, exp) || got.TypeOf(i) != typeOfAny(exp) {
					return errf("Map<%s> result[%d] = %s, the callback returned %s", name, i, showAny(g), showAny(exp))
				}
			}
			st.Count(fmt.Sprintf("map_result_mode%d.list", resMode))
		}
		if op.filter != nil {
			calls = 0
			if err := idSame("Filter<"+name+">", listVals(op.filter()), expectFilter(want)); err != nil {
				return err
			}
		}
		if got := op.allX(); got != (len(want) == n) {
			return errf("All<%s> = %v on kinds %v", name, got, kinds)
		}
		if len(want) >= 2 {
			st.Count("probed_with_repetition." + name)
		}
	}
	numeric := len(sub[KInt])+len(sub[KFloat]) == n
	if l.AllNumeric() != numeric {
		return errf("AllNumeric = %v on kinds %v", l.AllNumeric(), kinds)
	}
	// reductions with non-commutative folds
	wantInts, gotInts := 7, l.ReduceInts(7, func(acc, x int) int { return acc*31 + x })
	for _, x := range sub[KInt] {
		wantInts = wantInts*31 + x.(int)
	}
	if gotInts != wantInts {
		return errf("ReduceInts with acc*31+x = %d, expected %d on kinds %v", gotInts, wantInts, kinds)
	}
	wantStr, gotStr := ">", l.ReduceStrings(">", func(acc, x string) string { return acc + "|" + x })
	for _, x := range sub[KString] {
		wantStr += "|" + x.(string)
	}
	if gotStr != wantStr {
		return errf("ReduceStrings = %q, expected %q", gotStr, wantStr)
	}
	wantF, gotF := 1.0, l.ReduceFloats(1, func(acc, x float64) float64 { return acc*0.5 + x })
	for _, x := range sub[KFloat] {
		wantF = wantF*0.5 + x.(float64)
	}
	if gotF != wantF && !(gotF != gotF && wantF != wantF) {
		return errf("ReduceFloats = %v, expected %v", gotF, wantF)
	}
	// untyped Reduce with a nil initial value: the callback still sees every element, the first included
	nilCalls := 0
	gotN, _ := l.Reduce(nil, func(acc any, x any) any {
		nilCalls++
		prev, _ := acc.(string)
		return prev + "," + tagOf(x)
	}).(string)
	if wantN := strings.Join(append([]string{""}, all...), ","); (n > 0 && gotN != wantN) || nilCalls != n {
		return errf("Reduce(nil, f) called f %d times for %d elements and produced %q, expected %q", nilCalls, n, gotN, wantN)
	}
	gotR := l.Reduce("", func(acc any, x any) any { return acc.(string) + "," + tagOf(x) }).(string)
	if wantR := strings.Join(append([]string{""}, all...), ","); gotR != wantR && !(n == 0 && gotR == "") {
		return errf("Reduce visited %q, expected %q", gotR, wantR)
	}
	// untyped views: every element once, in order, with its index and the value Get returns
	var idxLog []int
	reset()
	l.ForEach(func(i int, x any) { idxLog = append(idxLog, i); log = append(log, x) })
	if err := idSame("ForEach", log, vals); err != nil {
		return err
	}
	for i, j := range idxLog {
		if i != j {
			return errf("ForEach passed index %d for the %d-th element", j, i)
		}
	}
	reset()
	l.ForEachValue(func(x any) { log = append(log, x) })
	if err := idSame("ForEachValue", log, vals); err != nil {
		return err
	}
	idxLog = nil
	if err := same("Map", tagsAsStrings(l.Map(func(i int, x any) any { idxLog = append(idxLog, i); return tagOf(x) })), all); err != nil {
		return err
	}
	for i, j := range idxLog {
		if i != j {
			return errf("Map passed index %d for the %d-th element", j, i)
		}
	}
	if err := same("MapValues", tagsAsStrings(l.MapValues(func(x any) any { return tagOf(x) })), all); err != nil {
		return err
	}
	if resMode > 0 {
		for pass, got := range []at.List{l.Map(func(i int, x any) any { return mapResult(resMode, x) }), l.MapValues(func(x any) any { return mapResult(resMode, x) })} {
			what := []string{"Map", "MapValues"}[pass]
			if got.Count() != len(vals) {
				return errf("%s with a callback returning nil or zero values produced %d elements for %d elements", what, got.Count(), len(vals))
			}
			for i, x := range vals {
				exp := mapResult(resMode, x)
				if g := got.Get(i); !ifaceEq(g, exp) || got.TypeOf(i) != typeOfAny(exp) {
					return errf("%s result[%d] = %s, the callback returned %s", what, i, showAny(g), showAny(exp))
				}
			}
		}
	}
	// views used from inside a callback of another view of the same list: each one still sees every
	// element of its kind once and in order
	if n > 0 {
		at0 := predSel % n
		var outer, innerAll, innerS, innerI, innerF []any
		step := 0
		l.ForEach(func(i int, x any) {
			outer = append(outer, x)
			if step == at0 {
				l.ForEachValue(func(y any) { innerAll = append(innerAll, y) })
				l.ForEachString(func(y string) { innerS = append(innerS, y) })
				l.ForEachInt(func(y int) { innerI = append(innerI, y) })
				l.ForEachFloat(func(y float64) { innerF = append(innerF, y) })
			}
			step++
		})
		for _, chk := range []struct {
			what      string
			got, want []any
		}{{"ForEach (with other views running inside one of its callbacks)", outer, vals}, {"ForEachValue called inside a ForEach callback", innerAll, vals},
			{"ForEachString called inside a ForEach callback", innerS, sub[KString]}, {"ForEachInt called inside a ForEach callback", innerI, sub[KInt]},
			{"ForEachFloat called inside a ForEach callback", innerF, sub[KFloat]}} {
			if err := idSame(chk.what, chk.got, chk.want); err != nil {
				return err
			}
		}
		var outerV, innerO, innerL []any
		step = 0
		l.ForEachValue(func(x any) {
			outerV = append(outerV, x)
			if step == at0 {
				l.ForEachObject(func(y at.Object) { innerO = append(innerO, y) })
				l.ForEachList(func(y at.List) { innerL = append(innerL, y) })
				l.ForEach(func(int, any) {})
			}
			step++
		})
		for _, chk := range []struct {
			what      string
			got, want []any
		}{{"ForEachValue (with other views running inside one of its callbacks)", outerV, vals}, {"ForEachObject called inside a ForEachValue callback", innerO, sub[KObject]},
			{"ForEachList called inside a ForEachValue callback", innerL, sub[KList]}} {
			if err := idSame(chk.what, chk.got, chk.want); err != nil {
				return err
			}
		}
	}
	// a callback that replaces an element which is still ahead: the view hands over what Get returns when
	// the element is visited (done on a second list holding the same elements, so that l stays as it is)
	if n >= 2 {
		at0 := predSel % (n - 1)
		for variant, name := range []string{"ForEach", "ForEachValue", "Map", "MapValues", "Filter", "Reduce"} {
			l2 := at.NewList(l.Slice()...)
			want2 := append([]any{}, vals...)
			want2[n-1] = "replaced ahead"
			var seen []any
			step := 0
			visit := func(x any) {
				seen = append(seen, x)
				if step == at0 {
					l2.Replace(n-1, "replaced ahead")
				}
				step++
			}
			switch variant {
			case 0:
				l2.ForEach(func(i int, x any) { visit(x) })
			case 1:
				l2.ForEachValue(func(x any) { visit(x) })
			case 2:
				l2.Map(func(i int, x any) any { visit(x); return nil })
			case 3:
				l2.MapValues(func(x any) any { visit(x); return nil })
			case 4:
				l2.Filter(func(x any) bool { visit(x); return false })
			default:
				l2.Reduce(0, func(acc any, x any) any { visit(x); return acc })
			}
			if err := idSame(name+" whose callback replaced the last element while visiting element "+strconv.Itoa(at0), seen, want2); err != nil {
				return err
			}
		}
	}
	// typed variants whose first callback turns the LAST element of that kind into another kind: it is no
	// longer an element of kind X when its turn would come
	for _, k := range []Kind{KInt, KString} {
		if len(sub[k]) < 2 {
			continue
		}
		lastIdx := -1
		for i := range kinds {
			if kinds[i] == k {
				lastIdx = i
			}
		}
		for variant := 0; variant < 3; variant++ {
			l2 := at.NewList(l.Slice()...)
			var seen []any
			first := true
			visit := func(x any) {
				seen = append(seen, x)
				if first {
					first = false
					l2.Replace(lastIdx, nil)
				}
			}
			name := ""
			switch {
			case k == KInt && variant == 0:
				name = "MapInts"
				l2.MapInts(func(x int) any { visit(x); return nil })
			case k == KInt && variant == 1:
				name = "FilterInts"
				l2.FilterInts(func(x int) bool { visit(x); return true })
			case k == KInt:
				name = "ForEachInt"
				l2.ForEachInt(func(x int) { visit(x) })
			case variant == 0:
				name = "MapStrings"
				l2.MapStrings(func(x string) any { visit(x); return nil })
			case variant == 1:
				name = "FilterStrings"
				l2.FilterStrings(func(x string) bool { visit(x); return true })
			default:
				name = "ForEachString"
				l2.ForEachString(func(x string) { visit(x) })
			}
			if err := idSame(name+" whose first callback replaced the last element of that kind by nil", seen, sub[k][:len(sub[k])-1]); err != nil {
				return err
			}
		}
	}
	// the accumulator of the untyped Reduce is the caller's business: any Go value, handed through untouched
	type tally struct{ n int }
	if got, ok := l.Reduce(tally{}, func(acc any, x any) any { a := acc.(tally); a.n++; return a }).(tally); !ok || got.n != n {
		return errf("Reduce with a struct accumulator returned %v after %d elements", got, n)
	}
	if got, ok := l.Reduce([]any{}, func(acc any, x any) any { return append(acc.([]any), x) }).([]any); !ok || len(got) != n {
		return errf("Reduce folding into a []any returned %d elements (ok=%v) for a list of %d", len(got), ok, n)
	}
	calls = 0
	if err := idSame("Filter", listVals(l.Filter(func(x any) bool { calls++; return pred(calls-1, x) })), expectFilter(vals)); err != nil {
		return err
	}
	after, _ := TakeIdentSnap(l)
	if !before.Same(after) {
		return errf("a view modified the list")
	}
	return nil
}

func tagsAsStrings(l at.List) []string {
	out := make([]string, l.Count())
	for i := range out {
		s, ok := l.Get(i).(string)
		if !ok {
			s = "non-string:" + showAny(l.Get(i))
		}
		out[i] = s
	}
	return out
}

func checkObjectViews(c *C14Case, st *Stats) error {
	o := at.NewObject()
	if c.Route%3 == 1 {
		// typed-map origin: the int fields come from a map[string]int, the others are Set afterwards
		m := map[string]int{}
		seenInt := false
		for i, k := range c.Kinds {
			if k == KInt {
				m[fmt.Sprintf("Key%d", i)] = elemValueZ(k, i, !seenInt && c.Pred%2 == 0).(int)
				seenInt = true
			}
		}
		o = at.NewObjectFrom(m)
	}
	firstSeen := map[Kind]bool{}
	vals := map[string]any{}
	byKind := map[Kind]map[string]any{}
	for i, k := range c.Kinds {
		key := fmt.Sprintf("Key%d", i)
		vals[key] = deriveIf(c.Derived, elemValueZ(k, i, !firstSeen[k] && c.Pred%2 == 0))
		firstSeen[k] = true
		if !(c.Route%3 == 1 && k == KInt) {
			o.Set(key, vals[key])
		}
		if byKind[k] == nil {
			byKind[k] = map[string]any{}
		}
		byKind[k][key] = vals[key]
	}
	if err := verifyObjectViews(o, vals, byKind, c.Kinds, c.Res, st); err != nil {
		return err
	}
	for mi, m := range c.Muts {
		keys := sortedKeys(o)
		fresh := deriveIf(c.Derived, elemValueZ(Kind(m.Kind%7), 1000+mi, false))
		switch m.Op {
		case "set", "add", "insert":
			o.Set(fmt.Sprintf("New%d", mi), fresh)
		case "replace":
			if len(keys) == 0 {
				continue
			}
			o.Set(keys[m.A%len(keys)], fresh)
		case "unset", "delete", "pop":
			if len(keys) == 0 {
				continue
			}
			o.Unset(keys[m.A%len(keys)])
		case "clear", "reverse":
			// emptied and refilled under the same keys (plus one new key)
			d := o.Dict()
			o.Clear()
			for _, k := range keys {
				o.Set(k, d[k])
			}
			o.Set(fmt.Sprintf("New%d", mi), fresh)
		default:
			continue
		}
		st.Count("reviewed_after.object." + m.Op)
		nowVals := map[string]any{}
		nowByKind := map[Kind]map[string]any{}
		var nowKinds []Kind
		for _, k := range sortedKeys(o) {
			nowVals[k] = o.Get(k)
			kd, ok := kindOfType(o.TypeOf(k))
			if !ok {
				return errf("after %s: TypeOf(%q) undefined", m.Op, k)
			}
			nowKinds = append(nowKinds, kd)
			if nowByKind[kd] == nil {
				nowByKind[kd] = map[string]any{}
			}
			nowByKind[kd][k] = nowVals[k]
		}
		if err := verifyObjectViews(o, nowVals, nowByKind, nowKinds, c.Res, NewStats()); err != nil {
			return errf("after a later %s: %v", m.Op, err)
		}
	}
	return nil
}

func verifyObjectViews(o at.Object, vals map[string]any, byKind map[Kind]map[string]any, kinds []Kind, resMode int, st *Stats) error {
	n := len(vals)
	before, _ := TakeIdentSnap(o)
	multiset := func(xs []any) []string {
		out := make([]string, len(xs))
		for i, x := range xs {
			out[i] = tagOf(x)
		}
		sort.Strings(out)
		return out
	}
	wantMulti := func(m map[string]any) []string {
		var xs []any
		for _, v := range m {
			xs = append(xs, v)
		}
		return multiset(xs)
	}
	var log []any
	pairs := map[string]any{}
	dupKey := ""
	o.ForEach(func(k string, x any) {
		if _, dup := pairs[k]; dup {
			dupKey = k
		}
		pairs[k] = x
	})
	if dupKey != "" {
		return errf("object ForEach visited key %q twice", dupKey)
	}
	if len(pairs) != n {
		return errf("object ForEach visited %d fields of %d", len(pairs), n)
	}
	for k, x := range pairs {
		if w, ok := vals[k]; !ok || !ifaceEq(w, x) {
			return errf("object ForEach passed (%q, %s), the field holds %s", k, showAny(x), showAny(w))
		}
	}
	o.ForEachValue(func(x any) { log = append(log, x) })
	if !eqStrings(multiset(log), wantMulti(vals)) {
		return errf("object ForEachValue visited %v, expected %v", multiset(log), wantMulti(vals))
	}
	type kindOps struct {
		k       Kind
		forEach func()
		mapX    func() at.Object
	}
	var res func(any) any = func(x any) any { return tagOf(x) }
	ops := []kindOps{
		{KObject, func() { o.ForEachObject(func(x at.Object) { log = append(log, x) }) }, func() at.Object { return o.MapObjects(func(x at.Object) any { return res(x) }) }},
		{KList, func() { o.ForEachList(func(x at.List) { log = append(log, x) }) }, func() at.Object { return o.MapLists(func(x at.List) any { return res(x) }) }},
		{KString, func() { o.ForEachString(func(x string) { log = append(log, x) }) }, func() at.Object { return o.MapStrings(func(x string) any { return res(x) }) }},
		{KBool, func() { o.ForEachBool(func(x bool) { log = append(log, x) }) }, func() at.Object { return o.MapBools(func(x bool) any { return res(x) }) }},
		{KInt, func() { o.ForEachInt(func(x int) { log = append(log, x) }) }, func() at.Object { return o.MapInts(func(x int) any { return res(x) }) }},
		{KFloat, func() { o.ForEachFloat(func(x float64) { log = append(log, x) }) }, func() at.Object { return o.MapFloats(func(x float64) any { return res(x) }) }},
	}
	checkMapped := func(what string, r at.Object, want map[string]any) error {
		if r.Count() != len(want) {
			return errf("%s result has %d fields, expected %d (%s)", what, r.Count(), len(want), clip(r.String(), 200))
		}
		for k, v := range want {
			if !r.KeyExists(k) {
				return errf("%s result lacks key %q (%s)", what, k, clip(r.String(), 200))
			}
			if g, _ := r.Get(k).(string); g != tagOf(v) {
				return errf("%s result[%q] = %s, expected %q", what, k, showAny(r.Get(k)), tagOf(v))
			}
		}
		return nil
	}
	for _, op := range ops {
		log = nil
		op.forEach()
		want := byKind[op.k]
		if !eqStrings(multiset(log), wantMulti(want)) {
			return errf("object ForEach<%v> visited %v, expected %v (kinds %v)", op.k, multiset(log), wantMulti(want), kinds)
		}
		if err := checkMapped(fmt.Sprintf("object Map<%v>", op.k), op.mapX(), want); err != nil {
			return err
		}
		if resMode > 0 {
			res = func(x any) any { return mapResult(resMode, x) }
			got := op.mapX()
			res = func(x any) any { return tagOf(x) }
			if got.Count() != len(want) {
				return errf("object Map<%v> with a callback returning nil or zero values produced %d fields for %d fields of that kind (%s)", op.k, got.Count(), len(want), clip(got.String(), 200))
			}
			for k, x := range want {
				exp := mapResult(resMode, x)
				if !got.KeyExists(k) {
					return errf("object Map<%v>: the callback returned %s for key %q and the result has no such key (%s)", op.k, showAny(exp), k, clip(got.String(), 200))
				}
				if g := got.Get(k); !ifaceEq(g, exp) || got.TypeOf(k) != typeOfAny(exp) {
					return errf("object Map<%v> result[%q] = %s, the callback returned %s", op.k, k, showAny(g), showAny(exp))
				}
			}
			st.Count(fmt.Sprintf("map_result_mode%d.object", resMode))
		}
		if len(want) >= 2 {
			st.Count("probed_with_repetition.object." + op.k.String())
		}
	}
	keyLog := map[string]string{}
	r := o.Map(func(k string, x any) any { keyLog[k] = tagOf(x); return tagOf(x) })
	if err := checkMapped("object Map", r, vals); err != nil {
		return err
	}
	for k, tg := range keyLog {
		if tagOf(vals[k]) != tg {
			return errf("object Map passed key %q with value %s", k, tg)
		}
	}
	if err := checkMapped("object MapValues", o.MapValues(func(x any) any { return tagOf(x) }), vals); err != nil {
		return err
	}
	// a callback that removes every other field: fields that are gone when their turn would come are not visited
	if n >= 2 {
		for variant, name := range []string{"ForEach", "ForEachValue", "Map", "MapValues"} {
			o2 := at.NewObject()
			for k, v := range vals {
				o2.Set(k, v)
			}
			calls := 0
			dropOthers := func() {
				calls++
				if calls == 1 {
					ks := sortedKeys(o2)
					// keep exactly one field: the one being visited is unknown to ForEachValue, so keep none but
					// re-check through Count below
					o2.Unset(ks...)
				}
			}
			switch variant {
			case 0:
				o2.ForEach(func(string, any) { dropOthers() })
			case 1:
				o2.ForEachValue(func(any) { dropOthers() })
			case 2:
				o2.Map(func(string, any) any { dropOthers(); return nil })
			default:
				o2.MapValues(func(any) any { dropOthers(); return nil })
			}
			if calls != 1 {
				return errf("object %s whose first callback unset every field made %d calls for an object of %d fields (fields that no longer exist must not be visited)", name, calls, n)
			}
		}
	}
	if resMode > 0 {
		for pass, got := range []at.Object{o.Map(func(k string, x any) any { return mapResult(resMode, x) }), o.MapValues(func(x any) any { return mapResult(resMode, x) })} {
			what := []string{"object Map", "object MapValues"}[pass]
			if got.Count() != n {
				return errf("%s with a callback returning nil or zero values produced %d fields for %d fields", what, got.Count(), n)
			}
			for k, x := range vals {
				exp := mapResult(resMode, x)
				if !got.KeyExists(k) || !ifaceEq(got.Get(k), exp) || got.TypeOf(k) != typeOfAny(exp) {
					return errf("%s: the callback returned %s for key %q, the result holds %s (present %v)", what, showAny(exp), k, showAny(got.Get(k)), got.KeyExists(k))
				}
			}
		}
	}
	after, _ := TakeIdentSnap(o)
	if !before.Same(after) {
		return errf("a view modified the object")
	}
	return nil
}

var unclassifiedOnce bool

// checkUntypedViewsOfInnerLevels: the untyped views hand over the value Get returns - also where the list
// stores an INNER embedding level of a derived structure (Get answers with the registered value then).
func checkUntypedViewsOfInnerLevels(st *Stats) error {
	dl := newDerivedList(2, true, 1, 2).(*DL2)
	do := newDerivedObject(3, false, "a", 1).(*DO3)
	l := at.NewList("x", dl.DL1, do.DO2, dl.DL1.List, 7)
	n := l.Count()
	want := make([]any, n)
	for i := range want {
		want[i] = l.Get(i)
	}
	check := func(what string, got []any) error {
		if len(got) != n {
			return errf("%s visited %d elements of %d (list storing inner embedding levels)", what, len(got), n)
		}
		for i := range got {
			if !ifaceEq(got[i], want[i]) {
				return errf("%s passed %T %p for element %d, Get(%d) returns %T %p (the list stores an inner embedding level of a derived structure)", what, got[i], got[i], i, i, want[i], want[i])
			}
		}
		return nil
	}
	var a, b, c2, d, e, f []any
	l.ForEach(func(i int, x any) { a = append(a, x) })
	l.ForEachValue(func(x any) { b = append(b, x) })
	l.Map(func(i int, x any) any { c2 = append(c2, x); return nil })
	l.MapValues(func(x any) any { d = append(d, x); return nil })
	kept := l.Filter(func(x any) bool { e = append(e, x); return true })
	l.Reduce(0, func(acc any, x any) any { f = append(f, x); return acc })
	for _, p := range []struct {
		what string
		got  []any
	}{{"ForEach", a}, {"ForEachValue", b}, {"Map", c2}, {"MapValues", d}, {"Filter", e}, {"Reduce", f}, {"the result of Filter", kept.Slice()}} {
		if err := check(p.what, p.got); err != nil {
			return err
		}
	}
	st.Count("inner_levels_stored")
	return nil
}

func CheckC14(c *C14Case, st *Stats) error {
	if c.Derived {
		if err := checkUntypedViewsOfInnerLevels(st); err != nil {
			return err
		}
	}
	nonFinite = c.NonFinite
	defer func() { nonFinite = false }()
	if !unclassifiedOnce {
		unclassifiedOnce = true
		unclassifiedViews(st)
	}
	if c.Big > 0 {
		cc := *c
		cc.Kinds = make([]Kind, c.Big)
		for i := range cc.Kinds {
			cc.Kinds[i] = c.BigKind
		}
		if c.BigOdd >= 0 && c.BigOdd < c.Big {
			cc.Kinds[c.Big-1-c.BigOdd] = c.OddKind
			if c.OddKind != c.BigKind {
				st.MarkNonTrivial()
			}
		}
		cc.Object = false
		st.Count("mode.biglist")
		return checkListViews(&cc, st)
	}
	// non-trivial: some kind occurs at least twice with another kind in between
	for i := range c.Kinds {
		for j := i + 2; j < len(c.Kinds); j++ {
			if c.Kinds[i] == c.Kinds[j] {
				for m := i + 1; m < j; m++ {
					if c.Kinds[m] != c.Kinds[i] {
						st.MarkNonTrivial()
					}
				}
			}
		}
	}
	if len(c.Kinds) == 0 {
		st.Count("empty")
	}
	if c.Object {
		st.Count("mode.object")
		return checkObjectViews(c, st)
	}
	st.Count("mode.list")
	return checkListViews(c, st)
}

func init() {
	Register("C14",
		"lists and objects of 0-16 (occasionally 33-130) elements, built through drawn construction routes (Add, NewList, NewListFrom, NewListOf+Replace, Concat, SubList, typed-slice origin + Insert, grow-and-shrink; objects optionally from a map[string]int; lists of scalars in one case of four from the parser, floats spelled 3.50 / 3.5e0 / 35E-1), whose kind sequence is drawn from an alphabet of 1-4 of the seven kinds with repetition (several elements of one kind interleaved with others, kinds absent, empty container); element values are pairwise distinct and encode their position (the first element of each scalar kind may be the zero value; in one case of four some floats are +Inf, -Inf or NaN). Views are also used from inside a callback of another view of the same list. For every kind X of {object, list, string, bool, int, float}: XSlice, ForEachX (callback log), MapXs (injective tag; in half of the cases a second pass whose callback returns nil for every / about half of the values, the value itself, or the zero value of the kind - each result must be stored as returned, nil included), FilterXs (predicates all/none/alternate/by value; identity for containers), ReduceXs with non-commutative folds, AllXs and AllNumeric, plus the untyped ForEach/ForEachValue/Map/MapValues/Filter/Reduce (index and value, in order, once); for objects ForEach/ForEachValue/ForEachX as multisets and Map/MapValues/MapXs storing under the same key and nothing else. The method table is compared with the interface by reflection (unknown view methods are reported as unclassified). Non-trivial = some kind occurs at least twice with an element of another kind between. Distinct = distinct FNV-64a hash of the case JSON. One case in 200 is a list of 1025-8191 elements of one scalar kind in which at most one element, 0-4 positions before the end, has another kind.",
		GenC14, CheckC14)
}

// deriveIf wraps a List / Object value in a registered user-defined derived type.
func deriveIf(derived bool, x any) any {
	if !derived {
		return x
	}
	switch v := x.(type) {
	case at.List:
		d := &DL1{List: v}
		d.Init(d)
		return d
	case at.Object:
		d := &DO1{Object: v}
		d.Init(d)
		return d
	}
	return x
}
