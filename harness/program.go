package harness

import (
	"fmt"
	"math"
	"sort"
	"strings"
	"unicode/utf8"

	at "github.com/DanielSvub/anytype"
	"pgregory.net/rapid"
)

// Op is one step of a generated program. All integer arguments are raw and are
// mapped onto the interesting range relative to the model state when the
// program is interpreted, so generation never depends on the implementation.
type Op struct {
	Op     string    `json:"op"`
	T      int       `json:"t,omitempty"` // target container selector
	U      int       `json:"u,omitempty"` // second container selector
	A      int       `json:"a,omitempty"`
	B      int       `json:"b,omitempty"`
	Vals   []ValSpec `json:"vals,omitempty"`
	Keys   []string  `json:"keys,omitempty"`
	Idx    []int     `json:"idx,omitempty"`
	Flavor int       `json:"flavor,omitempty"`
	Odd    bool      `json:"odd,omitempty"`
	BadKey int       `json:"badkey,omitempty"` // 1+position of a non-string key, 0 = none
}

const (
	maxLiveLists   = 8
	maxLiveObjects = 6
)

type machine struct {
	h  *heap
	st *Stats
	// bookkeeping for the non-triviality rules
	derived         bool
	mutAfterDerived bool
	expectedPanics  int
	aliasWrites     int
	mergeOverlap    int
	repeatedKeySet  int
	maxLen          int
	step            int
	lastPair        [2]*mnode
}

func newMachine(st *Stats) *machine {
	m := &machine{h: newHeap(), st: st}
	m.h.newList(at.NewList(), nil, true)
	m.h.newObject(at.NewObject(), map[string]mval{}, true)
	return m
}

func (m *machine) list(sel int) *mnode { return m.h.lists[sel%len(m.h.lists)] }

// target of a mutating list step: the list op.T selects or, in one step of four once a SubList or Concat
// has happened, the receiver or the result of the most recent derivation (an operation on one of the two
// is what an implementation that lets them share storage must get right)
func (m *machine) target(op Op) *mnode {
	if op.U%4 == 1 && m.lastPair[0] != nil {
		return m.lastPair[(op.U/4)%2]
	}
	return m.list(op.T)
}
func (m *machine) object(sel int) *mnode { return m.h.objects[sel%len(m.h.objects)] }

func (m *machine) noteMutation(n *mnode) {
	if m.derived {
		m.mutAfterDerived = true
	}
	for _, o := range m.h.nodes {
		if o == n {
			continue
		}
		if o.isList {
			for _, e := range o.elems {
				if e.ref == n {
					m.aliasWrites++
					return
				}
			}
		} else {
			for _, e := range o.fields {
				if e.ref == n {
					m.aliasWrites++
					return
				}
			}
		}
	}
}

func goVals(vs []mval) []any {
	out := make([]any, len(vs))
	for i, v := range vs {
		out[i] = v.goValue()
	}
	return out
}

// expectPanic runs f and checks that it panics exactly when want is true.
func (m *machine) expectPanic(what string, want bool, f func()) error {
	p, panicked := catch(f)
	if want {
		m.expectedPanics++
		m.st.Count("expected_panic")
	}
	if panicked && !want {
		return errf("step %d: %s panicked (%v) although its arguments are inside the documented domain", m.step, what, p)
	}
	if !panicked && want {
		return errf("step %d: %s did not panic although its argument is outside the documented domain", m.step, what)
	}
	return nil
}

func sameList(what string, got at.List, want any) error {
	if any(got) != want {
		return errf("%s did not return the list it was called on", what)
	}
	return nil
}

func sameObject(what string, got at.Object, want any) error {
	if any(got) != want {
		return errf("%s did not return the object it was called on", what)
	}
	return nil
}

func cloneFields(f map[string]mval) map[string]mval {
	out := make(map[string]mval, len(f))
	for k, v := range f {
		out[k] = v
	}
	return out
}

// Step executes one op against model and implementation.
func (m *machine) Step(op Op) error {
	m.step++
	m.st.Count("op." + op.Op)
	h := m.h
	switch op.Op {

	// ------------------------------------------------------------ lists
	case "newlist":
		if len(h.lists) >= maxLiveLists {
			return nil
		}
		vs := make([]mval, len(op.Vals))
		for i, s := range op.Vals {
			vs[i] = h.resolve(s, nil)
		}
		var l at.List
		args := goVals(vs)
		if err := m.expectPanic("NewList", false, func() { l = at.NewList(args...) }); err != nil {
			return err
		}
		// a program may build a second list from the very same values (the slice it spread into the call)
		if err := m.expectPanic("a second NewList from the slice of values that was spread into the first call", false, func() {
			if twin := at.NewList(args...); twin.Count() != len(vs) {
				panic(fmt.Sprintf("the second list has %d elements", twin.Count()))
			}
		}); err != nil {
			return err
		}
		h.newList(l, vs, true)

	case "newlistof":
		if len(h.lists) >= maxLiveLists || len(op.Vals) == 0 {
			return nil
		}
		v := h.resolve(op.Vals[0], nil)
		n := op.A % 5
		var l at.List
		if err := m.expectPanic("NewListOf", false, func() { l = at.NewListOf(v.goValue(), n) }); err != nil {
			return err
		}
		vs := make([]mval, n)
		for i := range vs {
			vs[i] = v
		}
		h.newList(l, vs, true)

	case "newlistfrom":
		if len(h.lists) >= maxLiveLists {
			return nil
		}
		var arg any
		var vs []mval
		switch op.Flavor % 7 {
		case 0:
			s := make([]any, 0, len(op.Vals))
			for _, sp := range op.Vals {
				v := h.resolve(sp, nil)
				vs = append(vs, v)
				s = append(s, v.goValue())
			}
			arg = s
		case 1:
			s := []string{}
			for _, sp := range op.Vals {
				s = append(s, sp.S)
				vs = append(vs, mval{k: KString, s: sp.S})
			}
			arg = s
		case 2:
			s := []bool{}
			for _, sp := range op.Vals {
				s = append(s, sp.B)
				vs = append(vs, mval{k: KBool, b: sp.B})
			}
			arg = s
		case 3:
			s := []int{}
			for _, sp := range op.Vals {
				s = append(s, int(sp.I))
				vs = append(vs, mval{k: KInt, i: int(sp.I)})
			}
			arg = s
		case 4:
			s := []float64{}
			for _, sp := range op.Vals {
				f := float64(sp.I) / 4
				s = append(s, f)
				vs = append(vs, mval{k: KFloat, f: f})
			}
			arg = s
		case 5:
			s := []at.Object{}
			for _, sp := range op.Vals {
				if sp.K == KNil {
					s = append(s, nil) // a nil interface entry becomes the nil kind
					vs = append(vs, mval{k: KNil})
					continue
				}
				n := m.object(sp.Ref)
				s = append(s, n.impl.(at.Object))
				vs = append(vs, mval{k: KObject, ref: n})
			}
			arg = s
		case 6:
			s := []at.List{}
			for _, sp := range op.Vals {
				if sp.K == KNil {
					s = append(s, nil)
					vs = append(vs, mval{k: KNil})
					continue
				}
				n := m.list(sp.Ref)
				s = append(s, n.impl.(at.List))
				vs = append(vs, mval{k: KList, ref: n})
			}
			arg = s
		}
		var l at.List
		if err := m.expectPanic("NewListFrom", false, func() { l = at.NewListFrom(arg) }); err != nil {
			return err
		}
		h.newList(l, vs, true)
		m.derived = true

	case "add":
		n := m.target(op)
		vs := make([]mval, len(op.Vals))
		for i, s := range op.Vals {
			vs[i] = h.resolve(s, n)
		}
		var r at.List
		if err := m.expectPanic("Add", false, func() { r = n.impl.(at.List).Add(goVals(vs)...) }); err != nil {
			return err
		}
		if err := sameList("Add", r, n.impl); err != nil {
			return err
		}
		n.elems = append(n.elems, vs...)
		m.noteMutation(n)

	case "insert":
		n := m.target(op)
		if len(op.Vals) == 0 {
			return nil
		}
		cnt := len(n.elems)
		i := op.A%(cnt+5) - 2
		v := h.resolve(op.Vals[0], n)
		bad := i < 0 || i > cnt
		var r at.List
		if err := m.expectPanic(fmt.Sprintf("Insert(%d) on a list of %d", i, cnt), bad, func() { r = n.impl.(at.List).Insert(i, v.goValue()) }); err != nil {
			return err
		}
		if !bad {
			if err := sameList("Insert", r, n.impl); err != nil {
				return err
			}
			n.elems = append(n.elems, mval{})
			copy(n.elems[i+1:], n.elems[i:])
			n.elems[i] = v
			m.noteMutation(n)
		}

	case "replace":
		n := m.target(op)
		if len(op.Vals) == 0 {
			return nil
		}
		cnt := len(n.elems)
		i := op.A%(cnt+4) - 2
		v := h.resolve(op.Vals[0], n)
		bad := i < 0 || i >= cnt
		var r at.List
		if err := m.expectPanic(fmt.Sprintf("Replace(%d) on a list of %d", i, cnt), bad, func() { r = n.impl.(at.List).Replace(i, v.goValue()) }); err != nil {
			return err
		}
		if !bad {
			if err := sameList("Replace", r, n.impl); err != nil {
				return err
			}
			n.elems[i] = v
			m.noteMutation(n)
		}

	case "delete":
		n := m.target(op)
		cnt := len(n.elems)
		i := op.A%(cnt+4) - 2
		bad := i < 0 || i >= cnt
		var r at.List
		if err := m.expectPanic(fmt.Sprintf("Delete(%d) on a list of %d", i, cnt), bad, func() { r = n.impl.(at.List).Delete(i) }); err != nil {
			return err
		}
		if !bad {
			if err := sameList("Delete", r, n.impl); err != nil {
				return err
			}
			n.elems = append(n.elems[:i:i], n.elems[i+1:]...)
			m.noteMutation(n)
		}

	case "deletemulti":
		n := m.list(op.T)
		cnt := len(n.elems)
		seen := map[int]bool{}
		var idx []int
		if cnt > 0 {
			for _, raw := range op.Idx {
				i := raw % cnt
				if !seen[i] {
					seen[i] = true
					idx = append(idx, i)
				}
			}
		}
		arg := append([]int{}, idx...)
		var r at.List
		if err := m.expectPanic(fmt.Sprintf("Delete(%v) on a list of %d", idx, cnt), false, func() { r = n.impl.(at.List).Delete(arg...) }); err != nil {
			return err
		}
		if err := sameList("Delete", r, n.impl); err != nil {
			return err
		}
		var kept []mval
		for i, e := range n.elems {
			if !seen[i] {
				kept = append(kept, e)
			}
		}
		n.elems = kept
		m.noteMutation(n)

	case "pop":
		n := m.target(op)
		cnt := len(n.elems)
		var r at.List
		if err := m.expectPanic(fmt.Sprintf("Pop on a list of %d", cnt), cnt == 0, func() { r = n.impl.(at.List).Pop() }); err != nil {
			return err
		}
		if cnt > 0 {
			if err := sameList("Pop", r, n.impl); err != nil {
				return err
			}
			n.elems = n.elems[: cnt-1 : cnt-1]
			m.noteMutation(n)
		}

	case "stack":
		// the list used as a stack: Pop, then Add of one value
		n := m.target(op)
		if len(op.Vals) == 0 {
			return nil
		}
		cnt := len(n.elems)
		v := h.resolve(op.Vals[0], n)
		if err := m.expectPanic(fmt.Sprintf("Pop on a list of %d", cnt), cnt == 0, func() { n.impl.(at.List).Pop() }); err != nil {
			return err
		}
		if cnt > 0 {
			n.elems = n.elems[: cnt-1 : cnt-1]
		}
		if err := m.expectPanic("Add after Pop", false, func() { n.impl.(at.List).Add(v.goValue()) }); err != nil {
			return err
		}
		n.elems = append(n.elems, v)
		m.noteMutation(n)

	case "clear":
		n := m.target(op)
		var r at.List
		if err := m.expectPanic("Clear", false, func() { r = n.impl.(at.List).Clear() }); err != nil {
			return err
		}
		if err := sameList("Clear", r, n.impl); err != nil {
			return err
		}
		n.elems = nil
		m.noteMutation(n)

	case "reverse":
		n := m.target(op)
		var r at.List
		if err := m.expectPanic("Reverse", false, func() { r = n.impl.(at.List).Reverse() }); err != nil {
			return err
		}
		if err := sameList("Reverse", r, n.impl); err != nil {
			return err
		}
		rev := make([]mval, len(n.elems))
		for i, e := range n.elems {
			rev[len(n.elems)-1-i] = e
		}
		n.elems = rev
		m.noteMutation(n)

	case "sortrun":
		// a homogeneous run of values (near-equal big ints, adjacent floats, duplicates) added to one
		// list - emptied first in two cases out of three - and sorted straight away, so that Sort
		// inside its domain is a common event and not the lucky outcome of unrelated Adds
		if op.A%3 != 0 {
			if err := m.Step(Op{Op: "clear", T: op.T}); err != nil {
				return err
			}
		}
		if err := m.Step(Op{Op: "add", T: op.T, Vals: op.Vals}); err != nil {
			return err
		}
		m.st.Count("sortrun")
		return m.Step(Op{Op: "sort", T: op.T})

	case "sort":
		n := m.target(op)
		if !sortDomain(n.elems) {
			m.st.Count("sort.outside_domain_skipped")
			return nil
		}
		var r at.List
		if err := m.expectPanic("Sort", false, func() { r = n.impl.(at.List).Sort() }); err != nil {
			return err
		}
		if err := sameList("Sort", r, n.impl); err != nil {
			return err
		}
		sorted := append([]mval{}, n.elems...)
		sort.SliceStable(sorted, func(i, j int) bool {
			switch sorted[i].k {
			case KString:
				return sorted[i].s < sorted[j].s
			case KInt:
				return sorted[i].i < sorted[j].i
			}
			return sorted[i].f < sorted[j].f
		})
		n.elems = sorted
		m.noteMutation(n)

	case "sublist":
		n := m.list(op.T)
		cnt := len(n.elems)
		s := op.A%(cnt+4) - 1
		e := op.B%(2*cnt+5) - cnt - 2
		switch op.U % 5 {
		case 1: // a suffix, spelled with end 0 ...
			s, e = op.A%(cnt+1), 0
		case 2: // ... or with end n
			s, e = op.A%(cnt+1), cnt
		case 3: // a prefix
			s = 0
		}
		bad := e > cnt || e < -cnt
		ee := e
		if !bad {
			if ee <= 0 {
				ee = cnt + ee
			}
			bad = s > ee || s < 0
		}
		var r at.List
		if err := m.expectPanic(fmt.Sprintf("SubList(%d,%d) on a list of %d", s, e, cnt), bad, func() { r = n.impl.(at.List).SubList(s, e) }); err != nil {
			return err
		}
		if !bad {
			if _, dup := h.byImpl[r]; dup {
				return errf("step %d: SubList returned an existing container instead of a new list", m.step)
			}
			vs := append([]mval{}, n.elems[s:ee]...)
			live := len(h.lists) < maxLiveLists
			m.lastPair = [2]*mnode{n, h.newList(r, vs, live)}
			m.derived = true
		}

	case "bulk":
		// grows a list by 63-4097 cheap scalars at once (sizes around powers of two), so that the later
		// steps of the program work on a list far beyond the sizes single steps reach
		n := m.target(op)
		k := bulkSizes[op.A%len(bulkSizes)]
		if len(n.elems)+k > bulkCap {
			return nil
		}
		vs := bulkVals(k, op.B)
		l := n.impl.(at.List)
		if err := m.expectPanic(fmt.Sprintf("Add of %d scalars", k), false, func() {
			switch op.Flavor % 3 {
			case 0:
				l.Add(goVals(vs)...)
			case 1:
				for _, v := range vs {
					l.Add(v.goValue())
				}
			default:
				for i := 0; i < len(vs); i += 100 {
					l.Add(goVals(vs[i:min(i+100, len(vs))])...)
				}
			}
		}); err != nil {
			return err
		}
		n.elems = append(n.elems, vs...)
		m.noteMutation(n)
		m.st.Count(fmt.Sprintf("bulk.kind%d", op.B%4))

	case "bigset":
		// gives an object 65-300 more fields (one Set call, one call per field, or calls of 50 pairs)
		n := m.object(op.T)
		k := bigsetSizes[op.A%len(bigsetSizes)]
		if len(n.fields)+k > 700 {
			return nil
		}
		o := n.impl.(at.Object)
		fields := cloneFields(n.fields)
		var args []any
		for i := 0; i < k; i++ {
			key := fmt.Sprintf("b%d_%04d", op.B%3, (i*37)%k)
			v := bulkVals(1, op.B+i)[0]
			if op.B%4 == 3 {
				v = mval{k: KInt, i: i}
			}
			fields[key] = v
			args = append(args, key, v.goValue())
		}
		if err := m.expectPanic(fmt.Sprintf("Set of %d fields", k), false, func() {
			switch op.Flavor % 3 {
			case 0:
				o.Set(args...)
			case 1:
				for i := 0; i < len(args); i += 2 {
					o.Set(args[i], args[i+1])
				}
			default:
				for i := 0; i < len(args); i += 100 {
					o.Set(args[i:min(i+100, len(args))]...)
				}
			}
		}); err != nil {
			return err
		}
		n.fields = fields
		m.noteMutation(n)
		m.st.Count("bigset")

	case "concat":
		n := m.list(op.T)
		o := m.list(op.U)
		if len(n.elems)+len(o.elems) > 2*bulkCap {
			return nil
		}
		var r at.List
		if err := m.expectPanic("Concat", false, func() { r = n.impl.(at.List).Concat(o.impl.(at.List)) }); err != nil {
			return err
		}
		if _, dup := h.byImpl[r]; dup {
			return errf("step %d: Concat returned an existing container instead of a new list", m.step)
		}
		vs := append(append([]mval{}, n.elems...), o.elems...)
		m.lastPair = [2]*mnode{n, h.newList(r, vs, len(h.lists) < maxLiveLists)}
		m.derived = true
		if n == o {
			m.st.Count("concat.self")
		}

	case "getters":
		n := m.list(op.T)
		cnt := len(n.elems)
		i := op.A%(cnt+2) - 1
		in := i >= 0 && i < cnt
		var want mval
		if in {
			want = n.elems[i]
		} else {
			m.expectedPanics++
		}
		if err := getterMatrixList(n.impl.(at.List), i, want, in); err != nil {
			return errf("step %d: list#%d: %v", m.step, n.id, err)
		}

	case "contains":
		n := m.list(op.T)
		if len(op.Vals) == 0 {
			return nil
		}
		probe := h.resolve(op.Vals[0], nil)
		if op.A%3 == 0 && len(n.elems) > 0 {
			probe = n.elems[op.B%len(n.elems)] // a value that is present
		}
		want := -1
		for i, e := range n.elems {
			if e.eq(probe) {
				want = i
				break
			}
		}
		l := n.impl.(at.List)
		var gc bool
		var gi int
		if op.A%7 == 1 {
			// a value of a type the list can never hold (some of them not even comparable): simply absent
			fp := foreignProbes[op.B%len(foreignProbes)]
			if err := m.expectPanic(fmt.Sprintf("Contains/IndexOf(%T)", fp), false, func() { gc = l.Contains(fp); gi = l.IndexOf(fp) }); err != nil {
				return err
			}
			if gc || gi != -1 {
				return errf("step %d: list#%d: Contains(%T) = %v, IndexOf = %d for a value no list can hold", m.step, n.id, fp, gc, gi)
			}
			m.st.Count("contains.foreign_probe")
			break
		}
		if err := m.expectPanic("Contains/IndexOf", false, func() { gc = l.Contains(probe.goValue()); gi = l.IndexOf(probe.goValue()) }); err != nil {
			return err
		}
		if gc != (want >= 0) || gi != want {
			return errf("step %d: list#%d %s: Contains(%v) = %v, IndexOf = %d; model first index %d", m.step, n.id, clip(l.String(), 120), probe, gc, gi, want)
		}

	// ------------------------------------------------------------ objects
	case "newobject", "set":
		var n *mnode
		isNew := op.Op == "newobject"
		if isNew {
			if len(h.objects) >= maxLiveObjects {
				return nil
			}
		} else {
			n = m.object(op.T)
		}
		np := len(op.Vals)
		if len(op.Keys) < np {
			np = len(op.Keys)
		}
		args := make([]any, 0, 2*np+1)
		vs := make([]mval, np)
		for i := 0; i < np; i++ {
			vs[i] = h.resolve(op.Vals[i], n)
			var key any = op.Keys[i]
			if op.BadKey == i+1 {
				key = 12345 + i
			}
			args = append(args, key, vs[i].goValue())
		}
		bad := false
		badAt := -1
		if op.Odd {
			args = append(args, "dangling")
			bad = true
		} else if op.BadKey >= 1 && op.BadKey <= np {
			bad = true
			badAt = op.BadKey - 1
		}
		seenKey := map[string]bool{}
		for i := 0; i < np; i++ {
			if seenKey[op.Keys[i]] {
				m.repeatedKeySet++
				m.st.Count("set.repeated_key")
				break
			}
			seenKey[op.Keys[i]] = true
		}
		apply := func(f map[string]mval, upto int) {
			for i := 0; i < upto; i++ {
				f[op.Keys[i]] = vs[i]
			}
		}
		if isNew {
			var o at.Object
			if err := m.expectPanic("NewObject", bad, func() { o = at.NewObject(args...) }); err != nil {
				return err
			}
			if !bad {
				f := map[string]mval{}
				apply(f, np)
				h.newObject(o, f, true)
			}
			return m.h.compareAll()
		}
		var r at.Object
		if err := m.expectPanic(fmt.Sprintf("Set with %d arguments (odd=%v, non-string key at pair %d)", len(args), op.Odd, badAt), bad, func() { r = n.impl.(at.Object).Set(args...) }); err != nil {
			return err
		}
		switch {
		case !bad:
			if err := sameObject("Set", r, n.impl); err != nil {
				return err
			}
			// setting the same pairs once more from the same argument slice changes nothing
			if err := m.expectPanic("a second Set with the argument slice that was spread into the first call", false, func() { n.impl.(at.Object).Set(args...) }); err != nil {
				return err
			}
			apply(n.fields, np)
			m.noteMutation(n)
		case op.Odd:
			// unchanged (checked by the heap comparison below)
		default:
			// the statement leaves open whether the pairs before the bad key were applied
			pre := n.fields
			withPrefix := cloneFields(pre)
			apply(withPrefix, badAt)
			n.fields = withPrefix
			if err := h.compareNode(n); err != nil {
				n.fields = pre
				if err2 := h.compareNode(n); err2 != nil {
					return errf("step %d: after a Set that panicked on a non-string key the object matches neither the previous state (%v) nor the previous state with the preceding pairs applied (%v)", m.step, err2, err)
				}
			}
		}

	case "newobjectfrom":
		if len(h.objects) >= maxLiveObjects {
			return nil
		}
		np := len(op.Vals)
		if len(op.Keys) < np {
			np = len(op.Keys)
		}
		f := map[string]mval{}
		var arg any
		switch op.Flavor % 7 {
		case 0:
			mm := map[string]any{}
			for i := 0; i < np; i++ {
				v := h.resolve(op.Vals[i], nil)
				mm[op.Keys[i]] = v.goValue()
				f[op.Keys[i]] = v
			}
			arg = mm
		case 1:
			mm := map[string]string{}
			for i := 0; i < np; i++ {
				mm[op.Keys[i]] = op.Vals[i].S
				f[op.Keys[i]] = mval{k: KString, s: op.Vals[i].S}
			}
			arg = mm
		case 2:
			mm := map[string]bool{}
			for i := 0; i < np; i++ {
				mm[op.Keys[i]] = op.Vals[i].B
				f[op.Keys[i]] = mval{k: KBool, b: op.Vals[i].B}
			}
			arg = mm
		case 3:
			mm := map[string]int{}
			for i := 0; i < np; i++ {
				mm[op.Keys[i]] = int(op.Vals[i].I)
				f[op.Keys[i]] = mval{k: KInt, i: int(op.Vals[i].I)}
			}
			arg = mm
		case 4:
			mm := map[string]float64{}
			for i := 0; i < np; i++ {
				x := float64(op.Vals[i].I) / 4
				mm[op.Keys[i]] = x
				f[op.Keys[i]] = mval{k: KFloat, f: x}
			}
			arg = mm
		case 5:
			mm := map[string]at.Object{}
			for i := 0; i < np; i++ {
				if op.Vals[i].K == KNil {
					mm[op.Keys[i]] = nil
					f[op.Keys[i]] = mval{k: KNil}
					continue
				}
				n := m.object(op.Vals[i].Ref)
				mm[op.Keys[i]] = n.impl.(at.Object)
				f[op.Keys[i]] = mval{k: KObject, ref: n}
			}
			arg = mm
		case 6:
			mm := map[string]at.List{}
			for i := 0; i < np; i++ {
				if op.Vals[i].K == KNil {
					mm[op.Keys[i]] = nil
					f[op.Keys[i]] = mval{k: KNil}
					continue
				}
				n := m.list(op.Vals[i].Ref)
				mm[op.Keys[i]] = n.impl.(at.List)
				f[op.Keys[i]] = mval{k: KList, ref: n}
			}
			arg = mm
		}
		var o at.Object
		if err := m.expectPanic("NewObjectFrom", false, func() { o = at.NewObjectFrom(arg) }); err != nil {
			return err
		}
		h.newObject(o, f, true)

	case "unset":
		n := m.object(op.T)
		keys := m.mixKeys(n, op)
		var r at.Object
		if err := m.expectPanic(fmt.Sprintf("Unset(%q)", keys), false, func() { r = n.impl.(at.Object).Unset(keys...) }); err != nil {
			return err
		}
		if err := sameObject("Unset", r, n.impl); err != nil {
			return err
		}
		for _, k := range keys {
			if _, ok := n.fields[k]; !ok {
				m.st.Count("unset.missing_key")
			}
			delete(n.fields, k)
		}
		m.noteMutation(n)

	case "oclear":
		n := m.object(op.T)
		var r at.Object
		if err := m.expectPanic("Clear", false, func() { r = n.impl.(at.Object).Clear() }); err != nil {
			return err
		}
		if err := sameObject("Clear", r, n.impl); err != nil {
			return err
		}
		n.fields = map[string]mval{}
		m.noteMutation(n)

	case "merge":
		n := m.object(op.T)
		o := m.object(op.U)
		var r at.Object
		if err := m.expectPanic("Merge", false, func() { r = n.impl.(at.Object).Merge(o.impl.(at.Object)) }); err != nil {
			return err
		}
		if _, dup := h.byImpl[r]; dup {
			return errf("step %d: Merge returned an existing container instead of a new object", m.step)
		}
		want := cloneFields(n.fields)
		overlap := false
		for k, v := range o.fields {
			if _, ok := want[k]; ok && n != o {
				overlap = true
			}
			want[k] = v
		}
		if overlap {
			m.mergeOverlap++
			m.st.Count("merge.overlapping_keys")
		}
		if n == o {
			m.st.Count("merge.self")
		}
		// nested containers taken over from the RECEIVER may be the originals or fresh copies (C09 allows
		// sharing, the pinned code copies); those of the ARGUMENT are held by reference like any stored value
		res := &mnode{fields: map[string]mval{}}
		h.bind(res, r)
		if len(h.objects) < maxLiveObjects {
			h.objects = append(h.objects, res)
		}
		if r.Count() != len(want) {
			return errf("step %d: Merge result has %d fields, expected %d (%s)", m.step, r.Count(), len(want), clip(r.String(), 200))
		}
		for k, v := range want {
			if v.ref == nil {
				res.fields[k] = v
				continue
			}
			if !r.KeyExists(k) {
				return errf("step %d: Merge result lacks key %+q", m.step, k)
			}
			got := r.Get(k)
			if _, fromArg := o.fields[k]; fromArg {
				// the argument's value is what the result holds: for a container that is the container itself
				if got != v.ref.impl {
					return errf("step %d: Merge result field %+q does not hold the argument's container but %s", m.step, k, showAny(got))
				}
				res.fields[k] = v
				continue
			}
			nv, err := m.adopt(v, got)
			if err != nil {
				return errf("step %d: Merge result field %+q: %v", m.step, k, err)
			}
			res.fields[k] = nv
		}
		m.derived = true

	case "pluck":
		n := m.object(op.T)
		keys := m.mixKeys(n, op)
		missing := false
		for _, k := range keys {
			if _, ok := n.fields[k]; !ok {
				missing = true
			}
		}
		var r at.Object
		if err := m.expectPanic(fmt.Sprintf("Pluck(%q)", keys), missing, func() { r = n.impl.(at.Object).Pluck(keys...) }); err != nil {
			return err
		}
		if !missing {
			if _, dup := h.byImpl[r]; dup {
				return errf("step %d: Pluck returned an existing container instead of a new object", m.step)
			}
			f := map[string]mval{}
			for _, k := range keys {
				f[k] = n.fields[k]
			}
			h.newObject(r, f, len(h.objects) < maxLiveObjects)
			m.derived = true
		}

	case "ogetters":
		n := m.object(op.T)
		o := n.impl.(at.Object)
		ks := sortedFieldKeys(n)
		if len(ks) > 0 {
			k := ks[op.A%len(ks)]
			if err := getterMatrixObject(o, k, n.fields[k], true); err != nil {
				return errf("step %d: object#%d: %v", m.step, n.id, err)
			}
		}
		for _, k := range op.Keys {
			v, present := n.fields[k]
			if !present {
				m.expectedPanics++
			}
			if err := getterMatrixObject(o, k, v, present); err != nil {
				return errf("step %d: object#%d: %v", m.step, n.id, err)
			}
		}

	case "bigunset":
		// an object of 64-90 fields and ONE Unset call that names many keys, some of them absent or repeated:
		// exactly the named fields that exist go away
		nf := 64 + op.A%27
		o := at.NewObject()
		want := map[string]int{}
		for i := 0; i < nf; i++ {
			k := fmt.Sprintf("f%03d", i)
			o.Set(k, i)
			want[k] = i
		}
		var keys []string
		for i := 0; i < nf+op.B%20; i++ {
			switch i % 3 {
			case 0:
				k := fmt.Sprintf("f%03d", (i*7)%nf)
				keys = append(keys, k)
				delete(want, k)
			case 1:
				keys = append(keys, fmt.Sprintf("absent%d", i))
			default:
				k := fmt.Sprintf("f%03d", (i*7-7+7*nf)%nf) // a repetition of the key named just before
				keys = append(keys, k)
				delete(want, k)
			}
		}
		if err := m.expectPanic("Unset with many keys", false, func() { o.Unset(keys...) }); err != nil {
			return err
		}
		if o.Count() != len(want) {
			return errf("step %d: an object of %d fields has %d fields after one Unset naming %d keys (%d of them present, some twice, others absent); expected %d", m.step, nf, o.Count(), len(keys), nf-len(want), len(want))
		}
		for k, v := range want {
			if !o.KeyExists(k) || o.Get(k) != v {
				return errf("step %d: Unset with many keys removed or changed the field %q that was not named", m.step, k)
			}
		}
		m.st.Count("bigunset")

	case "unsetmany":
		// removes all but 0-7 fields of a live object (of the biggest one in half of the cases): one Unset call
		// naming every key, one call per key, or every field overwritten with nil first
		n := m.object(op.T)
		if op.U%2 == 0 {
			for _, o := range h.objects {
				if len(o.fields) > len(n.fields) {
					n = o
				}
			}
		}
		ks := sortedFieldKeys(n)
		keep := op.A % 8
		if len(ks) <= keep {
			return nil
		}
		start := op.B % len(ks)
		var gone []string
		for i := 0; i < len(ks)-keep; i++ {
			gone = append(gone, ks[(start+i)%len(ks)])
		}
		o := n.impl.(at.Object)
		if err := m.expectPanic(fmt.Sprintf("Unset of %d of %d fields", len(gone), len(ks)), false, func() {
			switch op.Flavor % 3 {
			case 0:
				o.Unset(gone...)
			case 1:
				for _, k := range gone {
					o.Unset(k)
				}
			default:
				for _, k := range gone {
					o.Set(k, nil)
				}
				o.Unset(gone...)
			}
		}); err != nil {
			return err
		}
		fields := cloneFields(n.fields)
		for _, k := range gone {
			delete(fields, k)
		}
		n.fields = fields
		m.noteMutation(n)
		m.st.Count(fmt.Sprintf("unsetmany>=%d", []int{0, 64, 256}[b2i(len(gone) >= 64)+b2i(len(gone) >= 256)]))

	case "ocontains":
		n := m.object(op.T)
		if len(op.Vals) == 0 {
			return nil
		}
		probe := h.resolve(op.Vals[0], nil)
		ks := sortedFieldKeys(n)
		if op.A%3 == 0 && len(ks) > 0 {
			probe = n.fields[ks[op.B%len(ks)]]
		}
		holders := map[string]bool{}
		for k, v := range n.fields {
			if v.eq(probe) {
				holders[k] = true
			}
		}
		o := n.impl.(at.Object)
		var gc bool
		if op.A%7 == 1 {
			fp := foreignProbes[op.B%len(foreignProbes)]
			if err := m.expectPanic(fmt.Sprintf("Contains(%T)", fp), false, func() { gc = o.Contains(fp) }); err != nil {
				return err
			}
			if gc {
				return errf("step %d: object#%d: Contains(%T) = true for a value no object can hold", m.step, n.id, fp)
			}
			if err := m.expectPanic(fmt.Sprintf("KeyOf(%T)", fp), true, func() { o.KeyOf(fp) }); err != nil {
				return err
			}
			m.st.Count("contains.foreign_probe")
			break
		}
		if err := m.expectPanic("Contains", false, func() { gc = o.Contains(probe.goValue()) }); err != nil {
			return err
		}
		if gc != (len(holders) > 0) {
			return errf("step %d: object#%d Contains(%v) = %v, model says %v", m.step, n.id, probe, gc, len(holders) > 0)
		}
		var gk string
		if err := m.expectPanic(fmt.Sprintf("KeyOf(%v)", probe), len(holders) == 0, func() { gk = o.KeyOf(probe.goValue()) }); err != nil {
			return err
		}
		if len(holders) > 0 && !holders[gk] {
			return errf("step %d: object#%d KeyOf(%v) = %+q which does not hold that value", m.step, n.id, probe, gk)
		}
	}
	if l := m.maxListLen(); l > m.maxLen {
		m.maxLen = l
	}
	if err := m.h.compareAll(); err != nil {
		return errf("step %d (%s): %v", m.step, op.Op, err)
	}
	return nil
}

var bulkSizes = []int{63, 64, 65, 127, 128, 129, 255, 256, 257, 511, 513, 1023, 1024, 1025, 2049, 4097, 4099}
var bigsetSizes = []int{65, 100, 129, 200, 257, 300}

const bulkCap = 9000

// bulkVals makes k scalars from a seed: kind 0 ints from a small range (many duplicates), 1 distinct ints in a
// scrambled order, 2 short strings, 3 all five scalar kinds in turn.
func bulkVals(k, seed int) []mval {
	out := make([]mval, k)
	for i := range out {
		x := (i*7919 + seed) % 100003
		switch seed % 4 {
		case 0:
			out[i] = mval{k: KInt, i: x % 7}
		case 1:
			out[i] = mval{k: KInt, i: ((i*7919+seed)%k)*3 - k}
		case 2:
			out[i] = mval{k: KString, s: fmt.Sprintf("s%d", x%50)}
		default:
			switch i % 5 {
			case 0:
				out[i] = mval{k: KNil}
			case 1:
				out[i] = mval{k: KBool, b: x%2 == 0}
			case 2:
				out[i] = mval{k: KInt, i: x}
			case 3:
				out[i] = mval{k: KFloat, f: float64(x) / 8}
			default:
				out[i] = mval{k: KString, s: fmt.Sprintf("s%d", x)}
			}
		}
	}
	return out
}

func b2i(b bool) int {
	if b {
		return 1
	}
	return 0
}

func (m *machine) maxListLen() int {
	mx := 0
	for _, n := range m.h.lists {
		if len(n.elems) > mx {
			mx = len(n.elems)
		}
	}
	return mx
}

// mixKeys chooses the keys of an Unset/Pluck call: op.Keys verbatim, with the
// entries flagged in op.Idx replaced by keys that are present in the model.
func (m *machine) mixKeys(n *mnode, op Op) []string {
	ks := sortedFieldKeys(n)
	out := make([]string, 0, len(op.Keys))
	for i, k := range op.Keys {
		if len(ks) > 0 && i < len(op.Idx) && op.Idx[i]%3 != 0 {
			k = ks[op.Idx[i]%len(ks)]
		}
		out = append(out, k)
	}
	return out
}

// adopt relates a container the library handed out (got) with the model value
// expected at that place: it must be the identical original, or a container
// not seen before whose content is a deep copy (then a fresh model node is
// created and bound recursively).
func (m *machine) adopt(want mval, got any) (mval, error) {
	if want.ref == nil {
		if !want.eqAny(got) {
			return mval{}, errf("expected %v, got %s", want, showAny(got))
		}
		return want, nil
	}
	if got == want.ref.impl {
		return want, nil
	}
	if other, bound := m.h.byImpl[got]; bound {
		return mval{}, errf("expected %v or a fresh copy of it, got the unrelated existing container #%d", want, other.id)
	}
	if want.k == KList {
		l, ok := got.(at.List)
		if !ok {
			return mval{}, errf("expected a list, got %s", showAny(got))
		}
		if l.Count() != len(want.ref.elems) {
			return mval{}, errf("copied list has %d elements, original %d", l.Count(), len(want.ref.elems))
		}
		n := &mnode{isList: true}
		m.h.bind(n, got)
		for i, e := range want.ref.elems {
			nv, err := m.adopt(e, l.Get(i))
			if err != nil {
				return mval{}, err
			}
			n.elems = append(n.elems, nv)
		}
		return mval{k: KList, ref: n}, nil
	}
	o, ok := got.(at.Object)
	if !ok {
		return mval{}, errf("expected an object, got %s", showAny(got))
	}
	if o.Count() != len(want.ref.fields) {
		return mval{}, errf("copied object has %d fields, original %d", o.Count(), len(want.ref.fields))
	}
	n := &mnode{fields: map[string]mval{}}
	m.h.bind(n, got)
	for k, e := range want.ref.fields {
		if !o.KeyExists(k) {
			return mval{}, errf("copied object lacks key %+q", k)
		}
		nv, err := m.adopt(e, o.Get(k))
		if err != nil {
			return mval{}, err
		}
		n.fields[k] = nv
	}
	return mval{k: KObject, ref: n}, nil
}

func sortDomain(es []mval) bool {
	if len(es) == 0 {
		return false
	}
	k := es[0].k
	if k != KString && k != KInt && k != KFloat {
		return false
	}
	for _, e := range es {
		if e.k != k || (k == KFloat && e.f != e.f) {
			return false
		}
	}
	return true
}

// foreignProbes are arguments for Contains / IndexOf / KeyOf whose types no container can hold; several
// are not comparable (a lookup that hashes or compares them carelessly panics).
var foreignProbes = []any{[]int{1}, map[string]int{"a": 1}, func() {}, struct{ S []int }{}, [2][]int{}, new(int), int8(1), uint(1), float32(1), []any{}, map[string]any{}, struct{}{}, 'x', complex(1, 0)}

// ---- program generators ---------------------------------------------------------

var keyPool = []string{"", "a", "b", "c", "a.b", "#1", "k\"q", "line\nbreak", "ключ", "😀", strings.Repeat("long", 20), ".", "a#0", " ", "é", "ÿ", "caf\u00e9", "\ufffd", "a*", "?", "[a-c]", "*", ".a", ".a.b", "#0"}

func genKeyFromPool(t *rapid.T) string {
	if oneIn(t, 10, "freshkey") {
		return GenString(t, 5)
	}
	return keyPool[drawIdx(t, len(keyPool), "key")]
}

func genVals(t *rapid.T, lo, hi, containerWeight int) []ValSpec {
	n := drawInt(t, lo, hi, "nvals")
	out := make([]ValSpec, n)
	for i := range out {
		out[i] = genValSpec(t, containerWeight)
	}
	return out
}

func genKeys(t *rapid.T, n int) []string {
	out := make([]string, n)
	for i := range out {
		out[i] = genKeyFromPool(t)
	}
	return out
}

func genRaw(t *rapid.T) int { return drawInt(t, 0, 1<<20, "raw") }

func genRawSlice(t *rapid.T, lo, hi int) []int {
	n := drawInt(t, lo, hi, "nidx")
	out := make([]int, n)
	for i := range out {
		out[i] = genRaw(t)
	}
	return out
}

var listOpNames = []string{"addmany", "add", "insert", "replace", "delete", "deletemulti", "pop", "clear", "reverse", "sort", "sublist", "concat", "getters", "contains", "newlist", "newlistof", "newlistfrom", "sortrun", "bulk", "stack"}
var listOpWeights = []int{6, 22, 10, 7, 6, 3, 5, 1, 4, 5, 9, 9, 5, 6, 4, 2, 4, 4, 1, 4}

var objectOpNames = []string{"set", "unset", "oclear", "merge", "pluck", "ogetters", "ocontains", "newobject", "newobjectfrom", "bigunset", "bigset", "unsetmany"}
var objectOpWeights = []int{24, 9, 1, 10, 9, 8, 8, 6, 5, 1, 1, 2}

func genListOp(t *rapid.T) Op {
	name := listOpNames[pick(t, "lop", listOpWeights...)]
	op := Op{Op: name, T: drawInt(t, 0, 63, "t"), U: drawInt(t, 0, 63, "u"), A: genRaw(t), B: genRaw(t)}
	if name == "bulk" && !oneIn(t, 3, "bulk") {
		name = "addmany" // big lists make every later comparison expensive: about one program in twelve has one
	}
	switch name {
	case "addmany":
		op.Op = "add"
		op.Vals = genVals(t, 5, 12, 1)
	case "add", "newlist":
		op.Vals = genVals(t, 0, 4, 3)
	case "insert", "replace", "contains", "newlistof", "stack":
		op.Vals = genVals(t, 1, 1, 3)
	case "newlistfrom":
		op.Vals = genVals(t, 0, 4, 3)
		op.Flavor = drawInt(t, 0, 6, "flavor")
	case "deletemulti":
		op.Idx = genRawSlice(t, 0, 3)
	case "sortrun":
		op.Vals = genHomogVals(t)
	case "bulk":
		op.Flavor = drawInt(t, 0, 2, "flavor")
	}
	return op
}

// genHomogVals draws 2-12 values of one sortable kind in arbitrary order: small values with
// duplicates, clusters of neighbouring values around a large magnitude (ints beyond 2^53 that are
// distinct as ints but not as float64, adjacent floats), or the general scalar generators.
func genHomogVals(t *rapid.T) []ValSpec {
	n := drawInt(t, 2, 12, "nrun")
	out := make([]ValSpec, n)
	kind := pick(t, "runkind", 5, 3, 3)
	mode := pick(t, "runmode", 3, 4, 3)
	ibase := []int64{1 << 53, -(1 << 53), math.MaxInt64 - 4, math.MinInt64 + 4, 1 << 62, -(1 << 62), 1<<60 + 12345, 1 << 31, 0}[drawIdx(t, 9, "ibase")]
	fbase := []float64{1, 1e16, -1e16, 0.1, 1e300, -5e-324, 9007199254740992}[drawIdx(t, 7, "fbase")]
	for i := range out {
		switch kind {
		case 0:
			switch mode {
			case 0:
				out[i] = ValSpec{K: KInt, I: int64(drawInt(t, -3, 3, "i"))}
			case 1:
				out[i] = ValSpec{K: KInt, I: ibase + int64(drawInt(t, -4, 4, "off"))}
			default:
				v, _ := GenInt(t)
				out[i] = ValSpec{K: KInt, I: int64(v)}
			}
		case 1:
			var f float64
			switch mode {
			case 0:
				f = float64(drawInt(t, -6, 6, "f")) / 2
			case 1:
				f = fbase
				for k := drawInt(t, -3, 3, "ulps"); k != 0; {
					if k > 0 {
						f = math.Nextafter(f, math.Inf(1))
						k--
					} else {
						f = math.Nextafter(f, math.Inf(-1))
						k++
					}
				}
			default:
				f, _ = GenFloat(t)
				if f != f {
					f = 0
				}
			}
			out[i] = ValSpec{K: KFloat, F: math.Float64bits(f)}
		default:
			if mode == 0 {
				out[i] = ValSpec{K: KString, S: smallStrings[drawIdx(t, len(smallStrings), "s")]}
			} else {
				out[i] = ValSpec{K: KString, S: GenString(t, 6)}
			}
		}
	}
	return out
}

func genObjectOp(t *rapid.T) Op {
	name := objectOpNames[pick(t, "oop", objectOpWeights...)]
	op := Op{Op: name, T: drawInt(t, 0, 63, "t"), U: drawInt(t, 0, 63, "u"), A: genRaw(t), B: genRaw(t)}
	switch name {
	case "set", "newobject":
		op.Vals = genVals(t, 0, 4, 3)
		op.Keys = genKeys(t, len(op.Vals))
		switch drawInt(t, 0, 11, "setshape") {
		case 0:
			op.Odd = true
		case 1:
			if len(op.Vals) > 0 {
				op.BadKey = 1 + drawIdx(t, len(op.Vals), "badkey")
			}
		case 2, 3:
			if len(op.Keys) >= 2 {
				op.Keys[len(op.Keys)-1] = op.Keys[0] // repeated key inside one call
			}
		}
	case "newobjectfrom":
		op.Vals = genVals(t, 0, 4, 3)
		op.Keys = genKeys(t, len(op.Vals))
		op.Flavor = drawInt(t, 0, 6, "flavor")
	case "unset", "pluck":
		n := drawInt(t, 0, 3, "nkeys")
		op.Keys = genKeys(t, n)
		op.Idx = genRawSlice(t, n, n)
	case "ogetters":
		op.Keys = genKeys(t, 1)
	case "ocontains":
		op.Vals = genVals(t, 1, 1, 3)
	case "unsetmany":
		op.Flavor = drawInt(t, 0, 2, "flavor")
	case "bigset":
		op.Flavor = drawInt(t, 0, 2, "flavor")
		if !oneIn(t, 3, "bigset") {
			op.Op = "ogetters"
			op.Keys = genKeys(t, 1)
		}
	}
	return op
}

// ProgramCase is the case type of C05 and C06.
type ProgramCase struct {
	Ops []Op `json:"ops"`
	// Latin1: at run time every key and string value is re-encoded so that U+0080..U+00FF become
	// single bytes (Go strings that are not valid UTF-8); the JSON keeps the readable spelling
	Latin1 bool `json:"latin1,omitempty"`
}

func genProgram(t *rapid.T, listShare int) *ProgramCase {
	maxOps := 60
	if Thorough() {
		maxOps = 200
	}
	opGen := rapid.Custom(func(t *rapid.T) Op {
		if drawInt(t, 0, 99, "which") < listShare {
			return genListOp(t)
		}
		return genObjectOp(t)
	})
	// rapid's slice lengths are biased towards very short slices; draw a length class first so
	// that long programs (lists crossing several capacity boundaries) are common
	minLen := 1
	switch pick(t, "lenclass", 30, 40, 30) {
	case 1:
		minLen = drawInt(t, 8, 25, "minlen")
	case 2:
		minLen = drawInt(t, 26, maxOps, "minlen")
	}
	ops := rapid.SliceOfN(opGen, minLen, maxOps).Draw(t, "ops")
	return &ProgramCase{Ops: ops, Latin1: oneIn(t, 5, "latin1")}
}

func runProgram(c *ProgramCase, st *Stats) (*machine, error) {
	m := newMachine(st)
	for _, op := range c.Ops {
		if c.Latin1 {
			op.Keys = append([]string{}, op.Keys...)
			for i := range op.Keys {
				op.Keys[i] = latin1(op.Keys[i])
				if !utf8.ValidString(op.Keys[i]) {
					st.Count("key_not_valid_utf8")
				}
			}
			op.Vals = append([]ValSpec{}, op.Vals...)
			for i := range op.Vals {
				op.Vals[i].S = latin1(op.Vals[i].S)
			}
		}
		if err := m.Step(op); err != nil {
			return m, errf("%v\n program so far: %s", err, showOps(c.Ops[:m.step]))
		}
	}
	return m, nil
}

func showOps(ops []Op) string {
	var sb strings.Builder
	start := 0
	if len(ops) > 12 {
		start = len(ops) - 12
		sb.WriteString("… ")
	}
	for _, o := range ops[start:] {
		fmt.Fprintf(&sb, "%s(t=%d", o.Op, o.T)
		if len(o.Vals) > 0 {
			fmt.Fprintf(&sb, ",%d vals", len(o.Vals))
		}
		sb.WriteString(") ")
	}
	return sb.String()
}
