package harness

import (
	"fmt"
	"math"
	"sort"
	"strconv"
	"strings"

	at "github.com/DanielSvub/anytype"
)

// Kind of a node of the harness value tree.
type Kind uint8

const (
	KNil Kind = iota
	KBool
	KInt
	KFloat
	KString
	KList
	KObject
)

func (k Kind) String() string {
	return [...]string{"nil", "bool", "int", "float", "string", "list", "object"}[k]
}

// V is the harness's own value tree (the reference representation). Floats are
// stored as bit patterns so replay files are exact; objects are ordered pair
// lists with unique keys (insertion order used when building).
type V struct {
	K Kind   `json:"k"`
	B bool   `json:"b,omitempty"`
	I int64  `json:"i,omitempty"`
	F uint64 `json:"f,omitempty"`
	S string `json:"s,omitempty"`
	L []V    `json:"l,omitempty"`
	O []Pair `json:"o,omitempty"`
}

type Pair struct {
	K string `json:"k"`
	V V      `json:"v"`
}

func VNil() V            { return V{K: KNil} }
func VBool(b bool) V     { return V{K: KBool, B: b} }
func VInt(i int) V       { return V{K: KInt, I: int64(i)} }
func VFloat(f float64) V { return V{K: KFloat, F: math.Float64bits(f)} }
func VStr(s string) V    { return V{K: KString, S: s} }
func VList(l ...V) V     { return V{K: KList, L: l} }
func VObj(p ...Pair) V   { return V{K: KObject, O: p} }

func (v V) Float() float64 { return math.Float64frombits(v.F) }

// Field returns the value under key in an object node.
func (v V) Field(key string) (V, bool) {
	for _, p := range v.O {
		if p.K == key {
			return p.V, true
		}
	}
	return V{}, false
}

// Depth of nesting: scalars 0, empty container 1.
func (v V) Depth() int {
	d := 0
	switch v.K {
	case KList:
		for _, e := range v.L {
			if x := e.Depth(); x > d {
				d = x
			}
		}
		return d + 1
	case KObject:
		for _, p := range v.O {
			if x := p.V.Depth(); x > d {
				d = x
			}
		}
		return d + 1
	}
	return 0
}

// Walk visits every node (pre-order); key is "" for list elements and roots.
func (v V) Walk(f func(node V, key *string, depth int)) { v.walk(f, nil, 0) }

func (v V) walk(f func(V, *string, int), key *string, depth int) {
	f(v, key, depth)
	switch v.K {
	case KList:
		for _, e := range v.L {
			e.walk(f, nil, depth+1)
		}
	case KObject:
		for i := range v.O {
			k := v.O[i].K
			v.O[i].V.walk(f, &k, depth+1)
		}
	}
}

// Clone returns a deep copy of the tree.
func (v V) Clone() V {
	c := v
	if v.L != nil {
		c.L = make([]V, len(v.L))
		for i, e := range v.L {
			c.L[i] = e.Clone()
		}
	}
	if v.O != nil {
		c.O = make([]Pair, len(v.O))
		for i, p := range v.O {
			c.O[i] = Pair{p.K, p.V.Clone()}
		}
	}
	return c
}

// EqV is typed structural equality: the reference oracle for Equals. Kinds must
// match exactly (int != float), floats compare with Go ==, objects are maps.
func EqV(a, b V) bool {
	if a.K != b.K {
		return false
	}
	switch a.K {
	case KNil:
		return true
	case KBool:
		return a.B == b.B
	case KInt:
		return a.I == b.I
	case KFloat:
		return a.Float() == b.Float()
	case KString:
		return a.S == b.S
	case KList:
		if len(a.L) != len(b.L) {
			return false
		}
		for i := range a.L {
			if !EqV(a.L[i], b.L[i]) {
				return false
			}
		}
		return true
	case KObject:
		if len(a.O) != len(b.O) {
			return false
		}
		m := make(map[string]V, len(b.O))
		for _, p := range b.O {
			m[p.K] = p.V
		}
		if len(m) != len(b.O) {
			return false // duplicate keys never equal anything
		}
		seen := make(map[string]bool, len(a.O))
		for _, p := range a.O {
			if seen[p.K] {
				return false
			}
			seen[p.K] = true
			o, ok := m[p.K]
			if !ok || !EqV(p.V, o) {
				return false
			}
		}
		return true
	}
	return false
}

// EqVBits is EqV but floats compare by bit pattern (distinguishes -0 from +0).
func EqVBits(a, b V) bool {
	if a.K != b.K {
		return false
	}
	switch a.K {
	case KFloat:
		return a.F == b.F
	case KList:
		if len(a.L) != len(b.L) {
			return false
		}
		for i := range a.L {
			if !EqVBits(a.L[i], b.L[i]) {
				return false
			}
		}
		return true
	case KObject:
		if len(a.O) != len(b.O) {
			return false
		}
		for _, p := range a.O {
			o, ok := b.Field(p.K)
			if !ok || !EqVBits(p.V, o) {
				return false
			}
		}
		return true
	}
	return EqV(a, b)
}

// Show renders a tree compactly for error messages (Go-ish syntax, kinds visible).
func (v V) Show() string {
	var sb strings.Builder
	v.show(&sb, 0)
	s := sb.String()
	if len(s) > 600 {
		s = s[:600] + "…"
	}
	return s
}

func (v V) show(sb *strings.Builder, depth int) {
	if sb.Len() > 700 {
		return
	}
	switch v.K {
	case KNil:
		sb.WriteString("nil")
	case KBool:
		fmt.Fprintf(sb, "%v", v.B)
	case KInt:
		fmt.Fprintf(sb, "int(%d)", v.I)
	case KFloat:
		fmt.Fprintf(sb, "float(%s)", strconv.FormatFloat(v.Float(), 'g', -1, 64))
	case KString:
		fmt.Fprintf(sb, "%+q", v.S)
	case KList:
		sb.WriteString("[")
		for i, e := range v.L {
			if i > 0 {
				sb.WriteString(", ")
			}
			e.show(sb, depth+1)
		}
		sb.WriteString("]")
	case KObject:
		sb.WriteString("{")
		for i, p := range v.O {
			if i > 0 {
				sb.WriteString(", ")
			}
			fmt.Fprintf(sb, "%+q: ", p.K)
			p.V.show(sb, depth+1)
		}
		sb.WriteString("}")
	}
}

// Build turns a tree into the Go value to hand to anytype: scalars as canonical
// Go values, containers as fresh anytype containers (Add / Set in pair order).
func Build(v V) any {
	switch v.K {
	case KNil:
		return nil
	case KBool:
		return v.B
	case KInt:
		return int(v.I)
	case KFloat:
		return v.Float()
	case KString:
		return v.S
	case KList:
		return BuildList(v)
	case KObject:
		return BuildObject(v)
	}
	panic("bad kind")
}

func BuildList(v V) at.List {
	l := at.NewList()
	for _, e := range v.L {
		l.Add(Build(e))
	}
	return l
}

func BuildObject(v V) at.Object {
	o := at.NewObject()
	for _, p := range v.O {
		o.Set(p.K, Build(p.V))
	}
	return o
}

// Native turns a tree into plain Go maps / slices / canonical scalars.
func Native(v V) any {
	switch v.K {
	case KList:
		s := make([]any, 0, len(v.L))
		for _, e := range v.L {
			s = append(s, Native(e))
		}
		return s
	case KObject:
		m := make(map[string]any, len(v.O))
		for _, p := range v.O {
			m[p.K] = Native(p.V)
		}
		return m
	}
	return Build(v)
}

// FromNative converts plain Go values (as returned by NativeDict/NativeSlice or
// Dict/Slice entries) back to a tree. ok=false if a value of an unexpected
// dynamic type is met (reported with its type in what).
func FromNative(x any) (v V, what string) {
	switch t := x.(type) {
	case nil:
		return VNil(), ""
	case bool:
		return VBool(t), ""
	case int:
		return VInt(t), ""
	case float64:
		return VFloat(t), ""
	case string:
		return VStr(t), ""
	case []any:
		out := V{K: KList, L: make([]V, 0, len(t))}
		for _, e := range t {
			c, w := FromNative(e)
			if w != "" {
				return V{}, w
			}
			out.L = append(out.L, c)
		}
		return out, ""
	case map[string]any:
		keys := make([]string, 0, len(t))
		for k := range t {
			keys = append(keys, k)
		}
		sort.Strings(keys)
		out := V{K: KObject, O: make([]Pair, 0, len(t))}
		for _, k := range keys {
			c, w := FromNative(t[k])
			if w != "" {
				return V{}, w
			}
			out.O = append(out.O, Pair{k, c})
		}
		return out, ""
	}
	return V{}, fmt.Sprintf("%T", x)
}

// Snap walks an anytype value through the public API only (Count, TypeOf, Get,
// Keys) and returns its content as a tree. Object keys come out sorted.
// It returns an error if the API is inconsistent with itself (e.g. TypeOf
// disagrees with the dynamic type Get returns).
func Snap(x any) (V, error) {
	switch t := x.(type) {
	case nil:
		return VNil(), nil
	case bool:
		return VBool(t), nil
	case int:
		return VInt(t), nil
	case float64:
		return VFloat(t), nil
	case string:
		return VStr(t), nil
	case at.List:
		return SnapList(t)
	case at.Object:
		return SnapObject(t)
	}
	return V{}, errf("Snap: value of unexpected Go type %T", x)
}

func kindOfType(t at.Type) (Kind, bool) {
	switch t {
	case at.TypeNil:
		return KNil, true
	case at.TypeBool:
		return KBool, true
	case at.TypeInt:
		return KInt, true
	case at.TypeFloat:
		return KFloat, true
	case at.TypeString:
		return KString, true
	case at.TypeList:
		return KList, true
	case at.TypeObject:
		return KObject, true
	}
	return 0, false
}

func typeOfKind(k Kind) at.Type {
	switch k {
	case KNil:
		return at.TypeNil
	case KBool:
		return at.TypeBool
	case KInt:
		return at.TypeInt
	case KFloat:
		return at.TypeFloat
	case KString:
		return at.TypeString
	case KList:
		return at.TypeList
	case KObject:
		return at.TypeObject
	}
	return at.TypeUndefined
}

func SnapList(l at.List) (V, error) {
	n := l.Count()
	out := V{K: KList, L: make([]V, 0, n)}
	for i := 0; i < n; i++ {
		k, ok := kindOfType(l.TypeOf(i))
		if !ok {
			return V{}, errf("Snap: list TypeOf(%d) = %d with Count %d", i, l.TypeOf(i), n)
		}
		e, err := Snap(l.Get(i))
		if err != nil {
			return V{}, err
		}
		if e.K != k {
			return V{}, errf("Snap: list TypeOf(%d) says %v but Get returns a %v", i, k, e.K)
		}
		out.L = append(out.L, e)
	}
	return out, nil
}

func SnapObject(o at.Object) (V, error) {
	keys := o.Keys()
	n := keys.Count()
	if n != o.Count() {
		return V{}, errf("Snap: Keys() has %d entries, Count() is %d", n, o.Count())
	}
	ks := make([]string, 0, n)
	for i := 0; i < n; i++ {
		s, ok := keys.Get(i).(string)
		if !ok {
			return V{}, errf("Snap: Keys()[%d] is %T", i, keys.Get(i))
		}
		ks = append(ks, s)
	}
	sort.Strings(ks)
	out := V{K: KObject, O: make([]Pair, 0, n)}
	for i, k := range ks {
		if i > 0 && ks[i-1] == k {
			return V{}, errf("Snap: Keys() lists %q twice", k)
		}
		kk, ok := kindOfType(o.TypeOf(k))
		if !ok {
			return V{}, errf("Snap: object TypeOf(%q) undefined for a listed key", k)
		}
		e, err := Snap(o.Get(k))
		if err != nil {
			return V{}, err
		}
		if e.K != kk {
			return V{}, errf("Snap: object TypeOf(%q) says %v but Get returns a %v", k, kk, e.K)
		}
		out.O = append(out.O, Pair{k, e})
	}
	return out, nil
}

// Idents collects the identity (interface value) of every container reachable
// from x, x included, in deterministic (pre-order, sorted key) order.
func Idents(x any) []any {
	var out []any
	var rec func(any)
	rec = func(y any) {
		switch t := y.(type) {
		case at.List:
			out = append(out, y)
			for i := 0; i < t.Count(); i++ {
				rec(t.Get(i))
			}
		case at.Object:
			out = append(out, y)
			ks := sortedKeys(t)
			for _, k := range ks {
				rec(t.Get(k))
			}
		}
	}
	rec(x)
	return out
}

func sortedKeys(o at.Object) []string {
	keys := o.Keys()
	ks := make([]string, 0, keys.Count())
	for i := 0; i < keys.Count(); i++ {
		if s, ok := keys.Get(i).(string); ok {
			ks = append(ks, s)
		}
	}
	sort.Strings(ks)
	return ks
}

// IdentSnap is a snapshot that remembers content and the identity of every
// nested container by path, for "unchanged including identities" checks.
type IdentSnap struct {
	Tree V
	IDs  []any
}

func TakeIdentSnap(x any) (IdentSnap, error) {
	v, err := Snap(x)
	if err != nil {
		return IdentSnap{}, err
	}
	return IdentSnap{Tree: v, IDs: Idents(x)}, nil
}

// Same reports whether two snapshots have bit-identical content and the same
// container identities at the same positions.
func (s IdentSnap) Same(o IdentSnap) bool {
	if !EqVBits(s.Tree, o.Tree) || len(s.IDs) != len(o.IDs) {
		return false
	}
	for i := range s.IDs {
		if s.IDs[i] != o.IDs[i] {
			return false
		}
	}
	return true
}

// catch runs f and returns the recovered panic value (nil if none) together
// with whether it panicked.
func catch(f func()) (p any, panicked bool) {
	defer func() {
		if r := recover(); r != nil {
			p, panicked = r, true
		}
	}()
	f()
	return nil, false
}

// ---- construction routes -------------------------------------------------------
//
// The same content can be reached through different constructors and
// mutators, which leaves the implementation in different internal conditions
// (spare capacity, element wrappers shared between positions or between
// lists, typed-slice origin). BuildVariant picks a route per list node from a
// seed, so a case only has to carry one integer.

// numListRoutes is the number of construction routes listByRoute knows.
const numListRoutes = 9

func mix(seed, n int) int {
	x := uint64(seed)*0x9E3779B97F4A7C15 + uint64(n)*0xBF58476D1CE4E5B9
	x ^= x >> 31
	x *= 0x94D049BB133111EB
	x ^= x >> 29
	return int(x>>33) & 0x7fffffff
}

// BuildVariant builds the container for v choosing a construction route per
// node from seed. Route 0 everywhere (seed == 0) equals Build.
func BuildVariant(v V, seed int) any {
	if seed != 0 && mix(seed, 9973)%9 == 0 {
		// a ninth of the seeds: the whole tree is obtained from the parser (containers whose fields were
		// stored by the parser and not through Add/Set); used only when the text denotes exactly this tree
		if c := buildByParsing(v); c != nil {
			return c
		}
	}
	n := 0
	c := buildVariant(v, seed, &n)
	if seed != 0 && mix(seed, 4243)%8 == 0 {
		// an eighth of the seeds: what the caller gets is a Clone of the container that was built (a deep
		// copy is one more way for a container to come into being; summaries kept next to the content must
		// be right in the copy as well)
		var cl any
		if _, panicked := catch(func() {
			switch x := c.(type) {
			case at.List:
				cl = x.Clone()
			case at.Object:
				cl = x.Clone()
			}
		}); !panicked && cl != nil {
			if got, err := Snap(cl); err == nil && EqVBits(got, v) {
				return cl
			}
		}
	}
	return c
}

// buildByParsing returns the container the library's parser builds for the JSON text of v, or nil if
// the tree cannot be written as JSON without loss (non-finite floats, strings that are not valid UTF-8)
// or the parser does not give exactly v back.
func buildByParsing(v V) any {
	if v.K != KList && v.K != KObject {
		return nil
	}
	text := RenderJSON(v)
	var c any
	_, panicked := catch(func() {
		if v.K == KList {
			if l, err := at.ParseList(text); err == nil && l != nil {
				c = l
			}
		} else if o, err := at.ParseObject(text); err == nil && o != nil {
			c = o
		}
	})
	if panicked || c == nil {
		return nil
	}
	got, err := Snap(c)
	if err != nil || !EqVBits(got, v) {
		return nil
	}
	return c
}

func scalarEq(a, b V) bool {
	return a.K != KList && a.K != KObject && EqVBits(a, b)
}

func buildVariant(v V, seed int, counter *int) any {
	*counter++
	id := *counter
	switch v.K {
	case KList:
		elems := make([]any, len(v.L))
		for i, e := range v.L {
			elems[i] = buildVariant(e, seed, counter)
		}
		concatTwins(v.L, elems, seed, id)
		route := 0
		if seed != 0 {
			route = mix(seed, id) % numListRoutes
		}
		return listByRoute(v, elems, route, mix(seed, id+7))
	case KObject:
		o := at.NewObject()
		vals := make([]any, len(v.O))
		kids := make([]V, len(v.O))
		for i, p := range v.O {
			vals[i] = buildVariant(p.V, seed, counter)
			kids[i] = p.V
		}
		concatTwins(kids, vals, seed, id)
		if seed != 0 && mix(seed, id)%3 == 0 {
			m := make(map[string]any, len(v.O))
			for i, p := range v.O {
				m[p.K] = vals[i]
			}
			return at.NewObjectFrom(m)
		}
		for i, p := range v.O {
			o.Set(p.K, vals[i])
		}
		return o
	}
	return Build(v)
}

// listByRoute builds a list holding elems (already built Go values; v gives
// their kinds) through one of several routes that all yield the same content.
func listByRoute(v V, elems []any, route, salt int) at.List {
	n := len(elems)
	switch route {
	case 1:
		return at.NewList(elems...)
	case 2:
		// the slice handed to NewListFrom stays the caller's: it is overwritten right after the call
		src := append([]any{}, elems...)
		l := at.NewListFrom(src)
		for i := range src {
			src[i] = "scribbled over by the caller"
		}
		return l
	case 3:
		// NewListOf + Replace where the value differs: equal scalars keep sharing one wrapper
		if n > 0 && v.L[0].K != KList && v.L[0].K != KObject {
			l := at.NewListOf(elems[0], n)
			for i := 1; i < n; i++ {
				if !scalarEq(v.L[i], v.L[0]) {
					l.Replace(i, elems[i])
				}
			}
			return l
		}
	case 4:
		// Concat of two halves (result shares element wrappers with the temporary halves)
		h := n / 2
		return at.NewList(elems[:h]...).Concat(at.NewList(elems[h:]...))
	case 5:
		// SubList out of a longer list (junk before and after)
		long := at.NewList("junk-before")
		long.Add(elems...)
		long.Add("junk-after", 0)
		return long.SubList(1, 1+n+0*salt)
	case 6:
		// typed-slice origin for the elements of the majority scalar kind, the others inserted afterwards
		var k Kind = 255
		cnt := map[Kind]int{}
		for _, e := range v.L {
			cnt[e.K]++
		}
		for _, cand := range []Kind{KInt, KString, KFloat, KBool} {
			if cnt[cand] > 0 && (k == 255 || cnt[cand] > cnt[k]) {
				k = cand
			}
		}
		if k != 255 {
			var l at.List
			switch k {
			case KInt:
				s := []int{}
				for _, e := range v.L {
					if e.K == k {
						s = append(s, int(e.I))
					}
				}
				l = at.NewListFrom(s)
				for i := range s {
					s[i] = -7777777 // the caller re-uses its buffer
				}
			case KString:
				s := []string{}
				for _, e := range v.L {
					if e.K == k {
						s = append(s, e.S)
					}
				}
				l = at.NewListFrom(s)
				for i := range s {
					s[i] = "scribbled"
				}
			case KFloat:
				s := []float64{}
				for _, e := range v.L {
					if e.K == k {
						s = append(s, e.Float())
					}
				}
				l = at.NewListFrom(s)
				for i := range s {
					s[i] = -7.5e77
				}
			case KBool:
				s := []bool{}
				for _, e := range v.L {
					if e.K == k {
						s = append(s, e.B)
					}
				}
				l = at.NewListFrom(s)
				for i := range s {
					s[i] = !s[i]
				}
			}
			for i, e := range v.L {
				if e.K != k {
					l.Insert(i, elems[i])
				}
			}
			return l
		}
	case 8:
		// typed-slice origin holding a placeholder at every position, the other kinds stored with Replace
		if n > 0 {
			ints := make([]int, n)
			for i, e := range v.L {
				if e.K == KInt {
					ints[i] = int(e.I)
				}
			}
			l := at.NewListFrom(ints)
			for i, e := range v.L {
				if e.K != KInt {
					l.Replace(i, elems[i])
				}
			}
			for i := range ints {
				ints[i] = -7777777 // the caller re-uses its buffer
			}
			return l
		}
	case 7:
		// grow one by one past the content, then shrink back (spare capacity), with a Delete in the middle
		l := at.NewList()
		for i, e := range elems {
			l.Add(e)
			if i == n/2 {
				l.Add("transient")
			}
		}
		if n > 0 {
			l.Delete(n/2 + 1)
		}
		l.Add("tail").Pop()
		return l
	}
	l := at.NewList()
	for _, e := range elems {
		l.Add(e)
	}
	return l
}

// BuildSharing builds the container for v storing ONE instance wherever two non-empty container
// subtrees have identical content (a DAG: the same List/Object reachable at several places).
func BuildSharing(v V) any {
	memo := map[string]any{}
	var rec func(v V) any
	rec = func(v V) any {
		switch v.K {
		case KList:
			key := ""
			if len(v.L) > 0 {
				key = "L" + RenderJSON(sortedV(v))
				if x, ok := memo[key]; ok {
					return x
				}
			}
			l := at.NewList()
			for _, e := range v.L {
				l.Add(rec(e))
			}
			if key != "" {
				memo[key] = l
			}
			return l
		case KObject:
			key := ""
			if len(v.O) > 0 {
				key = "O" + RenderJSON(sortedV(v))
				if x, ok := memo[key]; ok {
					return x
				}
			}
			o := at.NewObject()
			for _, p := range v.O {
				o.Set(p.K, rec(p.V))
			}
			if key != "" {
				memo[key] = o
			}
			return o
		}
		return Build(v)
	}
	return rec(v)
}

func sortedV(v V) V {
	out := v
	switch v.K {
	case KList:
		out.L = make([]V, len(v.L))
		for i, e := range v.L {
			out.L[i] = sortedV(e)
		}
	case KObject:
		out.O = make([]Pair, len(v.O))
		for i, p := range v.O {
			out.O[i] = Pair{p.K, sortedV(p.V)}
		}
		sort.Slice(out.O, func(i, j int) bool { return out.O[i].K < out.O[j].K })
	}
	return out
}

// concatTwins: when a later sibling is a scalar-only list that starts with the content of an earlier
// scalar-only sibling list, it is (for some seeds) rebuilt as earlier.Concat(rest), so that the tree
// holds a list together with a list derived from it.
func concatTwins(kids []V, built []any, seed, id int) {
	if seed == 0 || mix(seed, id+3)%2 == 0 {
		return
	}
	scalarList := func(v V) bool {
		if v.K != KList || len(v.L) == 0 {
			return false
		}
		for _, e := range v.L {
			if e.K == KList || e.K == KObject {
				return false
			}
		}
		return true
	}
	for j := 1; j < len(kids); j++ {
		if !scalarList(kids[j]) {
			continue
		}
		for i := 0; i < j; i++ {
			if !scalarList(kids[i]) || len(kids[i].L) > len(kids[j].L) {
				continue
			}
			prefix := true
			for k := range kids[i].L {
				if !EqVBits(kids[i].L[k], kids[j].L[k]) {
					prefix = false
					break
				}
			}
			if !prefix {
				continue
			}
			rest := at.NewList()
			for _, e := range kids[j].L[len(kids[i].L):] {
				rest.Add(Build(e))
			}
			built[j] = built[i].(at.List).Concat(rest)
			break
		}
	}
}

// latin1 re-encodes a string so that every code point U+0080..U+00FF becomes the single byte of
// that value; the result is in general not valid UTF-8. Cases keep the readable (valid) spelling
// in their JSON and apply this at check time, so replay files stay lossless.
func latin1(s string) string {
	ascii := true
	for i := 0; i < len(s); i++ {
		if s[i] >= 0x80 {
			ascii = false
			break
		}
	}
	if ascii {
		return s
	}
	out := make([]byte, 0, len(s))
	for _, r := range s {
		if r >= 0x80 && r <= 0xff {
			out = append(out, byte(r))
		} else {
			out = append(out, string(r)...)
		}
	}
	return string(out)
}

// Latin1Keys applies latin1 to every object key of the tree; ok is false (and the tree must not
// be used) if two keys of one object collide after the re-encoding.
func (v V) Latin1Keys() (V, bool) {
	switch v.K {
	case KList:
		out := V{K: KList, L: make([]V, len(v.L))}
		for i, e := range v.L {
			x, ok := e.Latin1Keys()
			if !ok {
				return V{}, false
			}
			out.L[i] = x
		}
		return out, true
	case KObject:
		out := V{K: KObject, O: make([]Pair, len(v.O))}
		seen := map[string]bool{}
		for i, p := range v.O {
			k := latin1(p.K)
			x, ok := p.V.Latin1Keys()
			if !ok || seen[k] {
				return V{}, false
			}
			seen[k] = true
			out.O[i] = Pair{k, x}
		}
		return out, true
	}
	return v, true
}

// lookupsConsistent: on every list reachable from root, Contains and IndexOf agree with a scan of what the
// list holds (== on the values Get returns), for the given probes and for the list's own first and last
// element. A lookup structure kept next to the elements and shared or not updated would show here.
func lookupsConsistent(root any, probes []any) error {
	for _, id := range Idents(root) {
		l, ok := id.(at.List)
		if !ok {
			continue
		}
		sl := l.Slice()
		ps := append([]any{}, probes...)
		if len(sl) > 0 {
			ps = append(ps, sl[0], sl[len(sl)-1])
		}
		for _, p := range ps {
			want := -1
			for i, e := range sl {
				if eq, _ := rawEq(e, p); eq {
					want = i
					break
				}
			}
			var gi int
			var gc bool
			if pv, panicked := catch(func() { gi, gc = l.IndexOf(p), l.Contains(p) }); panicked {
				return errf("IndexOf/Contains(%s) panicked on a list of %d elements: %v", showAny(p), len(sl), pv)
			}
			if gi != want || gc != (want >= 0) {
				return errf("a list of %d elements answers IndexOf(%s) = %d and Contains = %v, a scan of its elements gives index %d (%s)", len(sl), showAny(p), gi, gc, want, clip(l.String(), 160))
			}
		}
	}
	return nil
}

// rawEq is == on two interface values; ok is false if the comparison itself panics (uncomparable types).
func rawEq(a, b any) (eq bool, ok bool) {
	defer func() {
		if recover() != nil {
			eq, ok = false, false
		}
	}()
	return a == b, true
}

// Latin1All applies latin1 to every object key and every string value (see Latin1Keys).
func (v V) Latin1All() (V, bool) {
	switch v.K {
	case KString:
		return VStr(latin1(v.S)), true
	case KList:
		out := V{K: KList, L: make([]V, len(v.L))}
		for i, e := range v.L {
			x, ok := e.Latin1All()
			if !ok {
				return V{}, false
			}
			out.L[i] = x
		}
		return out, true
	case KObject:
		out := V{K: KObject, O: make([]Pair, len(v.O))}
		seen := map[string]bool{}
		for i, p := range v.O {
			k := latin1(p.K)
			x, ok := p.V.Latin1All()
			if !ok || seen[k] {
				return V{}, false
			}
			seen[k] = true
			out.O[i] = Pair{k, x}
		}
		return out, true
	}
	return v, true
}
