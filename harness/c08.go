package harness

import (
	"fmt"
	"sort"
	"strconv"

	at "github.com/DanielSvub/anytype"
	"pgregory.net/rapid"
)

// C08: Clone is a deep copy that shares no mutable container with its source.

type CloneMut struct {
	Side int     `json:"side"` // 0 = original, 1 = clone
	Node int     `json:"node"` // raw selector among the containers reachable on that side
	Op   string  `json:"op"`
	A    int     `json:"a,omitempty"`
	Key  string  `json:"key,omitempty"`
	Path string  `json:"path,omitempty"` // for settf / unsettf (applied at the side's root)
	V    ValSpec `json:"v"`
}

type C08Case struct {
	// Deep > 0: additionally a chain of this many nested containers, grown top-down through the handle of
	// the innermost one (no single storing call ever sees a deep value), is cloned
	Deep int `json:"deep,omitempty"`
	// ListOf > 0: additionally a host holding NewListOf(container, ListOf) is cloned after ListOfOp
	// (0 nothing, 1 Pop, 2 Delete(0), 3 Replace(0, scalar)) was applied to that list
	ListOf   int `json:"listof,omitempty"`
	ListOfOp int `json:"listofop,omitempty"`
	Root     V   `json:"root"`
	// Share: after building, the container found at raw selector ShareFrom is
	// additionally stored inside the container at selector ShareInto (a DAG),
	// when that does not create a cycle.
	Share     bool       `json:"share,omitempty"`
	ShareFrom int        `json:"sharefrom,omitempty"`
	ShareInto int        `json:"shareinto,omitempty"`
	Muts      []CloneMut `json:"muts"`
	Build     int        `json:"build,omitempty"`   // construction-route seed (0 = Add/Set)
	Derived   int        `json:"derived,omitempty"` // >0: every Derived-th nested container is a user-defined derived type
}

var cloneMutOps = []string{"noop", "rekey", "clearrefill", "add", "insert", "replace", "delete", "pop", "clear", "reverse", "sort", "set", "unset", "oclear", "settf", "unsettf"}

func GenC08(t *rapid.T) *C08Case {
	cfg := tfTreeCfg()
	cfg.MaxDepth = 5
	// favour depth >= 2
	root := tfTreeRootD(t, oneIn(t, 3, "distractors")) // one tree in three also holds the empty key and keys with sigils
	if root.Depth() < 3 && drawInt(t, 0, 3, "deepen") > 0 {
		inner := GenChain(t, cfg, 4)
		if root.K == KList {
			root.L = append(root.L, inner)
		} else {
			if _, dup := root.Field("deep"); !dup {
				root.O = append(root.O, Pair{"deep", inner})
			}
		}
	}
	if oneIn(t, 12, "deepchain") {
		// nesting beyond any plausible recursion guard: a chain of 20-70 containers
		chainCfg := cfg
		chainCfg.LongLists = false
		inner := GenChain(t, chainCfg, 70)
		if root.K == KList {
			root.L = append(root.L, inner)
		} else if _, dup := root.Field("chain"); !dup {
			root.O = append(root.O, Pair{"chain", inner})
		}
	}
	c := &C08Case{Root: root}
	if oneIn(t, 400, "verydeep") {
		c.Deep = 10001 + drawInt(t, 0, 200, "deeper") // beyond any plausible nesting limit
	}
	if oneIn(t, 6, "listof") {
		c.ListOf, c.ListOfOp = drawInt(t, 2, 4, "listofn"), drawInt(t, 0, 3, "listofop")
	}
	if drawBool(t, "variant") {
		c.Build = 1 + genRaw(t)
	}
	if oneIn(t, 5, "derived") {
		c.Derived = drawInt(t, 1, 3, "every")
	}
	if oneIn(t, 5, "share") {
		c.Share, c.ShareFrom, c.ShareInto = true, genRaw(t), genRaw(t)
	}
	model := tFromV(root)
	n := drawInt(t, 1, 12, "nmut")
	for i := 0; i < n; i++ {
		m := CloneMut{Side: drawInt(t, 0, 1, "side"), Node: genRaw(t), Op: cloneMutOps[drawIdx(t, len(cloneMutOps), "op")], A: genRaw(t),
			Key: tfKeys[drawIdx(t, len(tfKeys), "key")], V: genValSpec(t, 2)}
		if m.Op == "settf" || m.Op == "unsettf" {
			m.Path = joinTF(genWritePath(t, model, m.Op == "unsettf"))
		}
		c.Muts = append(c.Muts, m)
	}
	return c
}

// buildDerived builds the tree with every `every`-th nested container wrapped
// in a user-defined derived type (registered with Init), as users of the
// "derived structures" feature store them inside plain containers.
func buildDerived(v V, every int, counter *int, isRoot bool) any {
	switch v.K {
	case KList:
		l := at.NewList()
		for _, e := range v.L {
			l.Add(buildDerived(e, every, counter, false))
		}
		if !isRoot {
			*counter++
			if *counter%every == 0 {
				d := &DL1{List: l}
				d.Init(d)
				return d
			}
		}
		return l
	case KObject:
		o := at.NewObject()
		for _, p := range v.O {
			o.Set(p.K, buildDerived(p.V, every, counter, false))
		}
		if !isRoot {
			*counter++
			if *counter%every == 0 {
				d := &DO1{Object: o}
				d.Init(d)
				return d
			}
		}
		return o
	}
	return Build(v)
}

func cloneOf(x any) any {
	switch v := x.(type) {
	case at.List:
		return v.Clone()
	case at.Object:
		return v.Clone()
	}
	return nil
}

// applyCloneMut mutates container n (or the root for tree-form ops).
func applyCloneMut(root any, n any, m CloneMut) (applied bool) {
	v := specValue(m.V)
	switch m.Op {
	case "settf":
		if m.Path == "" {
			return false
		}
		if _, ok := parseTF(m.Path); !ok {
			return false
		}
		_, panicked := catch(func() { setTF(root, m.Path, v) })
		return !panicked
	case "unsettf":
		if m.Path == "" {
			return false
		}
		catch(func() { unsetTF(root, m.Path) })
		return true
	}
	switch x := n.(type) {
	case at.List:
		cnt := x.Count()
		switch m.Op {
		case "rekey":
			// same length, different content: one element replaced (objects: one key swapped for another)
			if cnt == 0 {
				return false
			}
			x.Replace(m.A%cnt, v)
		case "clearrekey":
			// emptied and refilled up to the same length with other elements
			x.Clear()
			for i := 0; i < cnt; i++ {
				x.Add(fmt.Sprintf("refilled %d", i))
			}
		case "clearrefill":
			// emptied and refilled with the same elements
			old := x.Slice()
			x.Clear()
			x.Add(old...)
		case "noop":
			// calls that are documented no-ops: the content must not change, nor anything derived from it
			x.Delete()
			x.Add()
			catch(func() { x.UnsetTF("#" + strconv.Itoa(cnt+3)) })
		case "pad":
			// a tree-form write behind the end: the gap is filled with nils (within or beyond the spare capacity)
			x.SetTF("#"+strconv.Itoa(cnt+1+m.A%3), v)
		case "add":
			x.Add(v)
		case "insert":
			x.Insert(m.A%(cnt+1), v)
		case "replace":
			if cnt == 0 {
				return false
			}
			x.Replace(m.A%cnt, v)
		case "delete":
			if cnt == 0 {
				return false
			}
			x.Delete(m.A % cnt)
		case "pop":
			if cnt == 0 {
				return false
			}
			x.Pop()
		case "clear":
			x.Clear()
		case "reverse":
			x.Reverse()
		case "mixedsort":
			// Sort on a list of several kinds is documented to keep the elements of the first element's kind
			// only; whatever it leaves, the list is an ordinary list afterwards (callers re-read the content)
			if cnt == 0 {
				return false
			}
			switch x.TypeOf(0) {
			case at.TypeString, at.TypeInt, at.TypeFloat:
				x.Sort()
			default:
				return false
			}
		case "sort":
			if !listInSortDomain(x) {
				return false
			}
			x.Sort()
		default:
			return false
		}
		return true
	case at.Object:
		switch m.Op {
		case "rekey":
			// same number of fields, different key set
			ks := sortedKeys(x)
			if len(ks) == 0 {
				return false
			}
			old := ks[m.A%len(ks)]
			val := x.Get(old)
			x.Unset(old)
			x.Set(old+"'", val)
		case "clearrekey":
			// emptied and refilled up to the same count with other keys (same values): a reader that remembers
			// anything about the former keys is now wrong
			d := x.Dict()
			x.Clear()
			for _, k := range sortedKeys2(d) {
				x.Set(k+"\u2032", d[k])
			}
		case "clearrefill":
			// emptied and refilled with the same fields
			d := x.Dict()
			x.Clear()
			for _, k := range sortedKeys2(d) {
				x.Set(k, d[k])
			}
		case "noop":
			x.Unset("\x00no-such-key")
			x.Unset()
			x.Set()
			catch(func() { x.UnsetTF(".no-such-key") })
		case "set":
			x.Set(m.Key, v)
		case "unset":
			ks := sortedKeys(x)
			if len(ks) == 0 {
				return false
			}
			x.Unset(ks[m.A%len(ks)])
		case "oclear":
			x.Clear()
		default:
			return false
		}
		return true
	}
	return false
}

func containsIdent(ids []any, x any) bool {
	for _, y := range ids {
		if y == x {
			return true
		}
	}
	return false
}

// checkDeepClone clones a chain of n nested containers that was grown top-down.
func checkDeepClone(n int, st *Stats) error {
	root := at.NewList("top")
	var cur any = root
	for i := 0; i < n; i++ {
		var next any
		if i%3 == 2 {
			next = at.NewObject()
		} else {
			next = at.NewList()
		}
		switch x := cur.(type) {
		case at.List:
			x.Add(next)
		case at.Object:
			x.Set("k", next)
		}
		cur = next
	}
	cur.(interface{ Count() int }).Count()
	var clone at.List
	if p, panicked := catch(func() { clone = root.Clone() }); panicked {
		return errf("Clone of a chain of %d nested containers (grown top-down) panicked: %v", n, p)
	}
	// walk both chains in lockstep: same shape, no shared container
	step := func(x any) any {
		switch c := x.(type) {
		case at.List:
			if c.Count() == 0 {
				return nil
			}
			return c.Get(c.Count() - 1)
		case at.Object:
			if !c.KeyExists("k") {
				return nil
			}
			return c.Get("k")
		}
		return nil
	}
	var a, b any = root, clone
	depth := 0
	for {
		if a == b {
			return errf("the clone of a %d-level chain shares the container at level %d with the original", n, depth)
		}
		na, nb := step(a), step(b)
		_, aIsCont := na.(interface{ Count() int })
		_, bIsCont := nb.(interface{ Count() int })
		if aIsCont != bIsCont {
			return errf("the clone of a %d-level chain differs in shape at level %d", n, depth)
		}
		if !aIsCont {
			break
		}
		a, b = na, nb
		depth++
	}
	if depth != n {
		return errf("a chain grown to %d levels has %d levels", n, depth)
	}
	// the innermost containers are independent
	switch x := b.(type) {
	case at.List:
		x.Add("changed")
	case at.Object:
		x.Set("changed", 1)
	}
	if a.(interface{ Count() int }).Count() != 0 {
		return errf("a change of the innermost container of the clone of a %d-level chain shows in the original", n)
	}
	st.Count("deep_chain_cloned")
	return nil
}

// checkListOfClone: a list made by NewListOf(container, n) holds ONE instance n times; after one position
// was removed or overwritten, a clone of the host must still be a deep copy.
func checkListOfClone(n, op int, st *Stats) error {
	inner := at.NewObject("v", at.NewList(1, 2))
	lo := at.NewListOf(inner, n)
	host := at.NewObject("lo", lo, "x", 1)
	switch op % 4 {
	case 1:
		lo.Pop()
	case 2:
		lo.Delete(0)
	case 3:
		lo.Replace(0, "scalar")
	}
	before, err := TakeIdentSnap(host)
	if err != nil {
		return err
	}
	var clone at.Object
	if p, panicked := catch(func() { clone = host.Clone() }); panicked {
		return errf("Clone of a host holding NewListOf(container, %d) after operation %d panicked: %v", n, op%4, p)
	}
	cs, err := TakeIdentSnap(clone)
	if err != nil {
		return err
	}
	if !EqVBits(cs.Tree, before.Tree) {
		return errf("clone of a host holding NewListOf(container, %d) after operation %d differs: %s vs %s", n, op%4, cs.Tree.Show(), before.Tree.Show())
	}
	have := map[any]bool{}
	for _, id := range before.IDs {
		have[id] = true
	}
	for _, id := range cs.IDs {
		if have[id] {
			return errf("the clone of a host holding NewListOf(container, %d) shares %s with the original (operation %d was applied to the list before)", n, showAny(id), op%4)
		}
	}
	inner.GetList("v").Add("changed")
	if after, _ := TakeIdentSnap(clone); !EqVBits(after.Tree, cs.Tree) {
		return errf("a change inside the container repeated by NewListOf shows in a clone taken earlier (operation %d): %s", op%4, after.Tree.Show())
	}
	st.Count(fmt.Sprintf("listof_clone.op%d", op%4))
	return nil
}

func CheckC08(c *C08Case, st *Stats) error {
	if c.Deep > 0 {
		if err := checkDeepClone(c.Deep, st); err != nil {
			return err
		}
	}
	if c.ListOf > 0 {
		if err := checkListOfClone(c.ListOf, c.ListOfOp, st); err != nil {
			return err
		}
	}
	if c.Root.K != KList && c.Root.K != KObject {
		return nil
	}
	var orig any
	if c.Derived > 0 {
		n := 0
		orig = buildDerived(c.Root, c.Derived, &n, true)
		st.Count("with_derived_nested")
	} else {
		orig = BuildVariant(c.Root, c.Build)
	}
	if c.Share {
		ids := Idents(orig)
		from, into := ids[c.ShareFrom%len(ids)], ids[c.ShareInto%len(ids)]
		// no cycle: 'into' must not be reachable from 'from'
		if from != orig && !containsIdent(Idents(from), into) {
			switch x := into.(type) {
			case at.List:
				x.Add(from)
			case at.Object:
				x.Set("shared", from)
			}
			st.Count("dag")
		}
	}
	origSnap, err := TakeIdentSnap(orig)
	if err != nil {
		return err
	}
	// lookups before the copy is taken (whatever they build inside the lists belongs to the original alone)
	if err := lookupsConsistent(orig, []any{"modified", 1}); err != nil {
		return err
	}
	var clone any
	if p, panicked := catch(func() { clone = cloneOf(orig) }); panicked {
		return errf("Clone panicked: %v on %s", p, origSnap.Tree.Show())
	}
	if c.Derived == 0 {
		// (Equals is documented to be false for nested derived values, so it is only asserted on plain trees)
		ab, ba := equalsBoth(clone, orig)
		if !ab || !ba {
			return errf("clone does not Equal the original (%v/%v): %s", ab, ba, origSnap.Tree.Show())
		}
	}
	cloneSnap, err := TakeIdentSnap(clone)
	if err != nil {
		return err
	}
	if !EqVBits(cloneSnap.Tree, origSnap.Tree) {
		return errf("clone content differs: %s vs %s", cloneSnap.Tree.Show(), origSnap.Tree.Show())
	}
	after, _ := TakeIdentSnap(orig)
	if !origSnap.Same(after) {
		return errf("Clone modified its receiver: %s -> %s", origSnap.Tree.Show(), after.Tree.Show())
	}
	// no container reachable from the clone is reachable from the original
	origIDs := map[any]bool{}
	for _, id := range origSnap.IDs {
		origIDs[id] = true
	}
	for _, id := range cloneSnap.IDs {
		if origIDs[id] {
			return errf("the clone shares a container with the original: %s (tree %s)", showAny(id), origSnap.Tree.Show())
		}
	}
	// a clone OF THE CLONE, taken at once (work := doc.Clone(); snap := work.Clone()): it must stay as it is
	// whatever happens to the other two afterwards, and share nothing with either
	var clone2 any
	if p, panicked := catch(func() { clone2 = cloneOf(clone) }); panicked {
		return errf("Clone of the clone panicked: %v", p)
	}
	clone2Snap, err := TakeIdentSnap(clone2)
	if err != nil {
		return err
	}
	if !EqVBits(clone2Snap.Tree, origSnap.Tree) {
		return errf("the clone of the clone differs: %s vs %s", clone2Snap.Tree.Show(), origSnap.Tree.Show())
	}
	for _, id := range clone2Snap.IDs {
		if origIDs[id] {
			return errf("the clone of the clone shares a container with the original: %s", showAny(id))
		}
		for _, cid := range cloneSnap.IDs {
			if id == cid {
				return errf("the clone of the clone shares a container with the clone: %s", showAny(id))
			}
		}
	}
	deep := origSnap.Tree.Depth() >= 3
	nonRootHit := false
	sides := []any{orig, clone}
	names := []string{"original", "clone"}
	for i, m := range c.Muts {
		side := m.Side & 1
		ids := Idents(sides[side])
		target := ids[m.Node%len(ids)]
		otherBefore, err := TakeIdentSnap(sides[1-side])
		if err != nil {
			return err
		}
		var applied bool
		if p, panicked := catch(func() { applied = applyCloneMut(sides[side], target, m) }); panicked {
			return errf("mutation %d (%s) panicked: %v", i, m.Op, p)
		}
		if !applied {
			continue
		}
		st.Count("mut." + m.Op)
		if target != sides[side] || ((m.Op == "settf" || m.Op == "unsettf") && len(m.Path) > 3) {
			nonRootHit = true
		}
		otherAfter, err := TakeIdentSnap(sides[1-side])
		if err != nil {
			return err
		}
		if !otherBefore.Same(otherAfter) {
			return errf("mutation %d (%s %q on a container inside the %s) changed the %s:\n before: %s\n after:  %s", i, m.Op, m.Path, names[side], names[1-side], otherBefore.Tree.Show(), otherAfter.Tree.Show())
		}
		// ... and what the lists of both sides answer to lookups (the value just written included)
		probes := []any{"modified"}
		if m.V.K != KList && m.V.K != KObject {
			probes = append(probes, specValue(m.V))
		}
		for sd := range sides {
			if err := lookupsConsistent(sides[sd], probes); err != nil {
				return errf("after mutation %d (%s on a container inside the %s), in the %s: %v", i, m.Op, names[side], names[sd], err)
			}
		}
	}
	if deep && nonRootHit {
		st.MarkNonTrivial()
	}
	if now2, err := TakeIdentSnap(clone2); err != nil {
		return err
	} else if !clone2Snap.Same(now2) {
		return errf("the mutations of the original and of the clone changed the clone of the clone (taken before them):\n before: %s\n after:  %s", clone2Snap.Tree.Show(), now2.Tree.Show())
	}
	// cloning again after the history of mutations: a deep copy of the container as it is NOW
	for side := range sides {
		now, err := TakeIdentSnap(sides[side])
		if err != nil {
			return err
		}
		var again any
		if p, panicked := catch(func() { again = cloneOf(sides[side]) }); panicked {
			return errf("Clone of the %s after the mutations panicked: %v", names[side], p)
		}
		as, err := TakeIdentSnap(again)
		if err != nil {
			return err
		}
		if !EqVBits(as.Tree, now.Tree) {
			return errf("a Clone taken after the mutations does not have the current content of the %s: %s vs %s", names[side], as.Tree.Show(), now.Tree.Show())
		}
		have := map[any]bool{}
		for _, id := range now.IDs {
			have[id] = true
		}
		for _, id := range as.IDs {
			if have[id] {
				return errf("a Clone taken after the mutations shares a container with the %s: %s", names[side], showAny(id))
			}
		}
	}
	return nil
}

func init() {
	Register("C08",
		"trees (depth >= 2 favoured; chains up to 70 levels; one case in 400 also clones a chain of 10001-10200 containers grown top-down, one in six a host holding NewListOf(container, 2-4) after a Pop / Delete / Replace on that list; built through drawn construction routes; one in five turned into a DAG by storing one reachable container a second time; one in five with nested containers that are user-defined derived types) are cloned; then 1-12 mutations are applied at a drawn container of a drawn side (original or clone): Add, Insert, Replace, Delete, Pop, Clear, Reverse, Sort (in domain), Set, Unset, Clear, and SetTF/UnsetTF from the root with well-formed paths. Oracle: clone.Equals(orig) both ways; snapshot content equal; the sets of container identities reachable from the two roots are disjoint; Clone leaves the receiver unchanged; after every mutation the OTHER side's snapshot (content bits and identities) equals its snapshot before the mutation. Non-trivial = tree with a nested container at depth >= 2 and at least one applied mutation on a non-root container. Distinct = distinct FNV-64a hash of the case JSON. A clone of the clone is taken at once: it equals the original, shares nothing with original or clone, and is unchanged after the whole mutation history of the other two.",
		GenC08, CheckC08)
}

func sortedKeys2(d map[string]any) []string {
	ks := make([]string, 0, len(d))
	for k := range d {
		ks = append(ks, k)
	}
	sort.Strings(ks)
	return ks
}
