package harness

import (
	"math"
	"strconv"
	"unicode/utf8"

	"pgregory.net/rapid"
)

// ---- small draw helpers -------------------------------------------------

func drawInt(t *rapid.T, lo, hi int, label string) int {
	return rapid.IntRange(lo, hi).Draw(t, label)
}

func drawBool(t *rapid.T, label string) bool { return rapid.Bool().Draw(t, label) }

// unbiasedN draws an index in [0,n) that is (nearly) uniform. rapid's integer
// generators are deliberately biased towards small values, which would skew
// class weights; a Fibonacci hash of a biased 64-bit draw spreads the likely
// small draws evenly over the range while 0 still maps to 0 (so shrinking
// moves towards the first alternative).
func unbiasedN(t *rapid.T, n int, label string) int {
	if n <= 1 {
		return 0
	}
	u := rapid.Uint64().Draw(t, label)
	x := (u * 0x9E3779B97F4A7C15) >> 32
	return int((x * uint64(n)) >> 32)
}

// drawIdx selects an entry of a table of n entries uniformly.
func drawIdx(t *rapid.T, n int, label string) int { return unbiasedN(t, n, label) }

// oneIn is true with probability 1/n (unbiased; the likely raw draw 0 maps to false).
func oneIn(t *rapid.T, n int, label string) bool {
	if n <= 1 {
		return true
	}
	return unbiasedN(t, n, label) == n-1
}

// pick draws an index according to integer weights.
func pick(t *rapid.T, label string, weights ...int) int {
	total := 0
	for _, w := range weights {
		total += w
	}
	x := unbiasedN(t, total, label)
	for i, w := range weights {
		if x < w {
			return i
		}
		x -= w
	}
	return len(weights) - 1
}

// ---- runes and strings --------------------------------------------------

// Rune classes (names are used in histograms).
const (
	rcASCII = iota
	rcJSONSpecial
	rcC0
	rcDEL
	rcC1
	rcBMP
	rcLineSep
	rcFFFD
	rcNonChar
	rcAstral
	rcAstralOdd
	rcSigil
	rcSpace
	rcCount
)

var runeClassNames = [...]string{"ascii", "jsonspecial", "c0", "del", "c1", "bmp", "linesep", "fffd", "nonchar", "astral", "astralodd", "sigil", "space"}

func drawRuneOfClass(t *rapid.T, class int) rune {
	switch class {
	case rcASCII:
		return rune(drawInt(t, 0x21, 0x7e, "ascii"))
	case rcJSONSpecial:
		return []rune{'"', '\\', '/', '\'', '<', '>', '&', '`'}[drawInt(t, 0, 7, "special")]
	case rcC0:
		return rune(drawInt(t, 0, 0x1f, "c0"))
	case rcDEL:
		return 0x7f
	case rcC1:
		return rune(drawInt(t, 0x80, 0x9f, "c1"))
	case rcBMP:
		switch drawInt(t, 0, 3, "bmpk") {
		case 0:
			return rune(drawInt(t, 0xa0, 0x24f, "latin"))
		case 1:
			return rune(drawInt(t, 0x400, 0x4ff, "cyr"))
		case 2:
			return rune(drawInt(t, 0x4e00, 0x4eff, "cjk"))
		default:
			r := rune(drawInt(t, 0x800, 0xfffd, "bmp"))
			if r >= 0xd800 && r <= 0xdfff {
				r = 0xd7ff
			}
			return r
		}
	case rcLineSep:
		return []rune{0x2028, 0x2029, 0x85, 0xa0, 0xfeff, 0x200b}[drawInt(t, 0, 5, "ls")]
	case rcFFFD:
		return 0xfffd
	case rcNonChar:
		return []rune{0xfffe, 0xffff, 0xfdd0, 0xe000, 0xf8ff, 0xd7ff, 0x1fffe}[drawInt(t, 0, 6, "nc")]
	case rcAstral:
		return []rune{0x1f600, 0x1f4a9, 0x10000, 0x1d11e, 0x20000, 0x1f1e8}[drawInt(t, 0, 5, "as")]
	case rcAstralOdd:
		return []rune{0xe0001, 0x10ffff, 0xf0000, 0x10fffe, 0xe01ef, 0x30000}[drawInt(t, 0, 5, "ao")]
	case rcSigil:
		return []rune{'.', '#', ':', ',', '[', ']', '{', '}'}[drawInt(t, 0, 7, "sg")]
	case rcSpace:
		return []rune{' ', '\t', '\n', '\r', 0x3000}[drawInt(t, 0, 4, "sp")]
	}
	return 'x'
}

var syntaxLookalikes = []string{
	`],"a":[`, `null`, `true`, `1e5`, `A`, `{"a":1}`, `\`, `"`, `\"`, `\\`, `//`, `\n`, `0x10`, `-0`, `1.0`,
	`😀`, `\/`, `","`, `":"`, `}]`, ` `, `NaN`, `Infinity`,
	// a value-like token right after a structural character, as a token-level rewrite of the text would match it
	`range:-Inf..0`, `a,+Inf`, `k[NaN.0`, `:null`, `,true]`, `[1,2]`, `:NaN.0,`, `{"a":+Inf}`, `<b>&amp;</b>`, `%d%s`, `${HOME}`, `/* c */`,
	// a literal backslash followed by what looks like the rest of an escape (the serialiser writes \\u0041, which must come back as six characters)
	`\u0041`, `\u00e9x`, `\ud83d\ude00`, `\n\t`, `\\u0041`, `\x41`, `\"`, `a\`,
	// characters a tolerant reader might take for delimiters or drop: typographic quotes, BOM / zero-width characters
	"she said \u201chi\u201d", "\u201d", "\u201c", "\u2018x\u2019", "\u00abq\u00bb", "a\ufeffb", "\ufeff", "a\u200bb", "\u2060",
	// keys that differ only in the zero padding of a digit run
	"1", "01", "row7", "row007", "a.0", "a.00",
}

// GenString draws a valid-UTF-8 string from the class tables.
func GenString(t *rapid.T, maxLen int) string {
	if maxLen >= 4 && oneIn(t, 50, "longstr") {
		// a long string (buffer and block-size thresholds): 65-300 runes from a few classes
		n := []int{65, 100, 128, 129, 255, 256, 257, 300}[drawIdx(t, 8, "longn")]
		buf := make([]byte, 0, n*2)
		for i := 0; i < n; i++ {
			class := []int{rcASCII, rcASCII, rcASCII, rcJSONSpecial, rcBMP, rcAstral, rcC0}[drawIdx(t, 7, "lrc")]
			buf = utf8.AppendRune(buf, drawRuneOfClass(t, class))
		}
		return string(buf)
	}
	switch pick(t, "strshape", 6, 60, 8, 6) {
	case 0:
		return ""
	case 2:
		return syntaxLookalikes[drawIdx(t, len(syntaxLookalikes), "look")]
	case 3: // plain short ascii
		n := drawInt(t, 1, 4, "n")
		b := make([]byte, n)
		for i := range b {
			b[i] = byte(drawInt(t, 'a', 'e', "c"))
		}
		return string(b)
	}
	n := drawInt(t, 1, maxLen, "n")
	buf := make([]byte, 0, n*2)
	for i := 0; i < n; i++ {
		class := pick(t, "rc", 30, 12, 10, 3, 4, 8, 4, 5, 4, 6, 4, 4, 4)
		buf = utf8.AppendRune(buf, drawRuneOfClass(t, class))
	}
	return string(buf)
}

// classifyString reports which rune classes occur (for histograms).
func classifyString(s string) (classes []string) {
	if s == "" {
		return []string{"empty"}
	}
	seen := map[string]bool{}
	add := func(c string) {
		if !seen[c] {
			seen[c] = true
			classes = append(classes, c)
		}
	}
	for _, r := range s {
		switch {
		case r == '"' || r == '\\' || r == '/':
			add("jsonspecial")
		case r < 0x20:
			add("c0")
		case r == 0x7f:
			add("del")
		case r < 0x7f:
			add("ascii")
		case r <= 0x9f:
			add("c1")
		case r == 0x2028 || r == 0x2029:
			add("linesep")
		case r == 0xfffd:
			add("fffd")
		case r == 0xfffe || r == 0xffff || (r >= 0xfdd0 && r <= 0xfdef) || (r >= 0xe000 && r <= 0xf8ff):
			add("nonchar")
		case r > 0xffff:
			add("astral")
		default:
			add("bmp")
		}
	}
	return
}

// hardString: contains something beyond printable ASCII or a JSON-special char.
func hardString(s string) bool {
	for _, r := range s {
		if r < 0x20 || r >= 0x7f || r == '"' || r == '\\' || r == '/' {
			return true
		}
	}
	return false
}

// ---- numbers ------------------------------------------------------------

var floatClassNames = [...]string{"whole_small", "whole_switch", "zero", "subnormal", "max", "pow10", "near1e-6", "beyond2^53", "randombits", "fraction", "whole_mid", "decimal_neighbour"}

// GenFloat draws a finite float64 from the class table; returns class index.
func GenFloat(t *rapid.T) (float64, int) {
	class := pick(t, "fc", 14, 8, 6, 4, 3, 8, 5, 6, 14, 14, 6, 8)
	var f float64
	switch class {
	case 0:
		f = float64(drawInt(t, 0, 1000, "w"))
	case 1:
		base := []float64{1e6, 1e21, 1e5, 1e20, 999999, 1000001, 1e15, 1e16, 1e17, 123456789012345680000}[drawInt(t, 0, 9, "sw")]
		f = base
		switch drawInt(t, 0, 2, "adj") {
		case 1:
			f = math.Nextafter(base, 0)
		case 2:
			f = math.Nextafter(base, math.Inf(1))
		}
	case 2:
		f = 0
		if drawBool(t, "negzero") {
			f = math.Copysign(0, -1)
		}
		return f, class
	case 3:
		f = []float64{5e-324, 2.2250738585072009e-308, 1e-310, 4.9406564584124654e-324 * 3}[drawInt(t, 0, 3, "sub")]
	case 4:
		f = []float64{math.MaxFloat64, math.Nextafter(math.MaxFloat64, 0), math.SmallestNonzeroFloat64, 2.2250738585072014e-308}[drawInt(t, 0, 3, "mx")]
	case 5:
		f = math.Pow10(drawInt(t, -300, 300, "p10"))
	case 6:
		base := []float64{1e-6, 1e-7, 1e-5, 0.000001234, 9.99e-7}[drawInt(t, 0, 4, "n6")]
		f = base
		switch drawInt(t, 0, 2, "adj") {
		case 1:
			f = math.Nextafter(base, 0)
		case 2:
			f = math.Nextafter(base, 1)
		}
	case 7:
		f = float64(uint64(1)<<uint(drawInt(t, 53, 63, "sh"))) + float64(drawInt(t, 0, 4, "o")*2048)
	case 8:
		bits := rapid.Uint64().Draw(t, "bits")
		f = math.Float64frombits(bits)
		if math.IsNaN(f) || math.IsInf(f, 0) {
			f = math.Float64frombits(bits &^ (1 << 62))
		}
	case 9:
		f = float64(drawInt(t, -100000, 100000, "num")) / float64([]int{2, 3, 4, 7, 10, 100, 1000, 8}[drawInt(t, 0, 7, "den")])
	case 10:
		f = float64(rapid.Int64Range(-1<<52, 1<<52).Draw(t, "wm"))
	case 11:
		// 1-3 ulps beside a short decimal (428.09999999999997, 6020.599999999999): a writer that recognises
		// "two decimals" by a rounded product, or a reader that scales a short mantissa, is off by an ulp here
		f = float64(drawInt(t, 1, 10000000, "dm")) / []float64{10, 100, 100, 100, 1000, 10000, 1e6, 1e9}[drawInt(t, 0, 7, "dk")]
		dir := math.Inf(1)
		if drawBool(t, "down") {
			dir = math.Inf(-1)
		}
		for i, n := 0, drawInt(t, 1, 3, "ulps"); i < n; i++ {
			f = math.Nextafter(f, dir)
		}
	}
	if class != 8 && oneIn(t, 4, "neg") {
		f = -f
	}
	return f, class
}

var intClassNames = [...]string{"zero_one", "small", "pow2edge", "extreme", "random"}

// GenInt draws a platform int from the class table.
func GenInt(t *rapid.T) (int, int) {
	class := pick(t, "ic", 4, 8, 5, 3, 4)
	switch class {
	case 0:
		return drawInt(t, -1, 1, "i"), class
	case 1:
		return drawInt(t, -1000, 1000, "i"), class
	case 2:
		sh := []uint{7, 8, 15, 16, 31, 32, 53, 62}[drawInt(t, 0, 7, "sh")]
		v := int(1)<<sh + drawInt(t, -1, 1, "o")
		if drawBool(t, "neg") {
			v = -v
		}
		return v, class
	case 3:
		return []int{math.MaxInt, math.MinInt, math.MaxInt - 1, math.MinInt + 1, math.MaxInt32, math.MinInt32}[drawInt(t, 0, 5, "x")], class
	}
	return int(rapid.Int64().Draw(t, "i")), class
}

// ---- value trees --------------------------------------------------------

// TreeCfg bounds and flavours a generated tree.
type TreeCfg struct {
	MaxDepth  int
	MaxWidth  int
	MaxStr    int
	KeyGen    func(t *rapid.T) string // nil: GenString
	NoFloat   bool
	LongLists bool                       // occasionally draw lists of 60-130 scalars (fast paths keyed on length)
	LeafExtra func(t *rapid.T) (V, bool) // optional extra leaf source
}

func DefaultTreeCfg() TreeCfg {
	if Thorough() {
		return TreeCfg{MaxDepth: 7, MaxWidth: 10, MaxStr: 24, LongLists: true}
	}
	return TreeCfg{MaxDepth: 5, MaxWidth: 6, MaxStr: 16, LongLists: true}
}

// GenLeaf draws a scalar.
func GenLeaf(t *rapid.T, cfg TreeCfg) V {
	if cfg.LeafExtra != nil {
		if v, ok := cfg.LeafExtra(t); ok {
			return v
		}
	}
	w := []int{3, 3, 8, 8, 10}
	if cfg.NoFloat {
		w[3] = 0
	}
	switch pick(t, "leaf", w...) {
	case 0:
		return VNil()
	case 1:
		return VBool(drawBool(t, "b"))
	case 2:
		i, _ := GenInt(t)
		return VInt(i)
	case 3:
		f, _ := GenFloat(t)
		return VFloat(f)
	}
	return VStr(GenString(t, cfg.MaxStr))
}

// GenValue draws a scalar or container subtree with remaining depth budget.
func GenValue(t *rapid.T, cfg TreeCfg, depth int) V {
	if depth <= 0 || pick(t, "node", 55, 22, 23) == 0 {
		return GenLeaf(t, cfg)
	}
	if drawBool(t, "islist") {
		return GenListV(t, cfg, depth)
	}
	return GenObjectV(t, cfg, depth)
}

func widthFor(t *rapid.T, cfg TreeCfg) int {
	// favour small widths, keep empties frequent
	switch pick(t, "wclass", 12, 60, 28) {
	case 0:
		return 0
	case 1:
		return drawInt(t, 1, 3, "w")
	}
	return drawInt(t, 1, cfg.MaxWidth, "w")
}

// genLongList: a long list of cheap scalars (lengths around powers of two and multiples of small block
// sizes); when there is depth left, half of them also hold 2-4 containers at drawn positions, one of which
// may again be such a long list (bulk paths that treat the nested containers of long lists separately).
func genLongList(t *rapid.T, cfg TreeCfg, depth int) V {
	n := []int{60, 63, 64, 65, 66, 67, 96, 100, 127, 128, 129, 130, 255, 256, 257, 258, 259, 32, 33, 40}[drawIdx(t, 20, "longn")]
	if oneIn(t, 12, "hugelist") {
		n = []int{1023, 1024, 1025, 2049, 4097}[drawIdx(t, 5, "hugen")]
	}
	out := V{K: KList, L: make([]V, 0, n)}
	for i := 0; i < n; i++ {
		switch drawInt(t, 0, 3, "lk") {
		case 0:
			out.L = append(out.L, VInt(drawInt(t, -3, 3, "li")))
		case 1:
			out.L = append(out.L, VStr(smallStrings[drawIdx(t, len(smallStrings), "ls")]))
		case 2:
			out.L = append(out.L, VFloat(float64(drawInt(t, -4, 4, "lf"))/2))
		default:
			out.L = append(out.L, VInt(i))
		}
	}
	if depth > 1 && n <= 300 && drawBool(t, "sprinkle") {
		sub := cfg
		sub.LongLists = false
		for i, k := 0, drawInt(t, 2, 4, "nsprinkle"); i < k; i++ {
			pos := drawIdx(t, n, "spos")
			if i == 0 {
				pos = drawInt(t, 0, 5, "spos0") // one of them early, so that others follow it
			}
			switch {
			case depth > 2 && oneIn(t, 3, "nestlong"):
				out.L[pos] = genLongList(t, cfg, depth-1)
			case drawBool(t, "slist"):
				out.L[pos] = GenListV(t, sub, 1+drawInt(t, 0, 1, "sd"))
			default:
				out.L[pos] = GenObjectV(t, sub, 1+drawInt(t, 0, 1, "sd"))
			}
		}
	}
	return out
}

// GenListV draws a list node (depth counts container levels available).
func GenListV(t *rapid.T, cfg TreeCfg, depth int) V {
	if cfg.LongLists && oneIn(t, 40, "longlist") {
		return genLongList(t, cfg, depth)
	}
	if oneIn(t, 12, "repeated") {
		// 2-8 scalars over an alphabet of two values: some construction routes share one
		// element wrapper between equal positions
		a, b := GenLeaf(t, cfg), GenLeaf(t, cfg)
		n := drawInt(t, 2, 8, "rn")
		out := V{K: KList}
		for i := 0; i < n; i++ {
			if oneIn(t, 3, "rwhich") {
				out.L = append(out.L, b)
			} else {
				out.L = append(out.L, a)
			}
		}
		return out
	}
	n := widthFor(t, cfg)
	out := V{K: KList, L: make([]V, 0, n)}
	for i := 0; i < n; i++ {
		out.L = append(out.L, GenValue(t, cfg, depth-1))
	}
	return out
}

func genKey(t *rapid.T, cfg TreeCfg) string {
	if cfg.KeyGen != nil {
		return cfg.KeyGen(t)
	}
	return GenString(t, cfg.MaxStr)
}

// GenObjectV draws an object node with unique keys.
func GenObjectV(t *rapid.T, cfg TreeCfg, depth int) V {
	if cfg.LongLists && oneIn(t, 60, "wideobject") {
		// a wide object of cheap scalars (size thresholds in map handling, comparison, copying)
		n := []int{60, 64, 65, 100, 128, 129}[drawIdx(t, 6, "widen")]
		out := V{K: KObject, O: make([]Pair, 0, n)}
		for i := 0; i < n; i++ {
			var v V
			switch drawInt(t, 0, 2, "wk") {
			case 0:
				v = VInt(drawInt(t, -3, 3, "wi"))
			case 1:
				v = VStr(smallStrings[drawIdx(t, len(smallStrings), "ws")])
			default:
				v = VNil()
			}
			out.O = append(out.O, Pair{"key" + strconv.Itoa(i), v})
		}
		if depth > 1 && drawBool(t, "sprinkle") {
			sub := cfg
			sub.LongLists = false
			for i, k := 0, drawInt(t, 2, 4, "nsprinkle"); i < k; i++ {
				pos := drawIdx(t, n, "spos")
				if drawBool(t, "slist") {
					out.O[pos].V = GenListV(t, sub, 1)
				} else {
					out.O[pos].V = GenObjectV(t, sub, 1)
				}
			}
		}
		return out
	}
	n := widthFor(t, cfg)
	out := V{K: KObject, O: make([]Pair, 0, n)}
	seen := map[string]bool{}
	for i := 0; i < n; i++ {
		k := genKey(t, cfg)
		if seen[k] {
			// make unique by construction instead of rejecting
			k = k + string(rune('a'+i))
			if seen[k] {
				continue
			}
		}
		seen[k] = true
		out.O = append(out.O, Pair{k, GenValue(t, cfg, depth-1)})
	}
	return out
}

// GenRoot draws a list- or object-rooted tree.
func GenRoot(t *rapid.T, cfg TreeCfg) V {
	depth := drawInt(t, 1, cfg.MaxDepth, "depth")
	if drawBool(t, "rootlist") {
		return GenListV(t, cfg, depth)
	}
	return GenObjectV(t, cfg, depth)
}

// GenChain draws a deep, narrow tree (depth up to maxDepth) ending in a leaf.
func GenChain(t *rapid.T, cfg TreeCfg, maxDepth int) V {
	d := 2 + unbiasedN(t, maxDepth-1, "chain")
	v := GenLeaf(t, cfg)
	for i := 0; i < d; i++ {
		if drawBool(t, "cl") {
			v = VList(v)
		} else {
			v = VObj(Pair{genKey(t, cfg), v})
		}
	}
	if v.K != KList && v.K != KObject {
		v = VList(v)
	}
	return v
}

// leafStats counts leaf classes of a tree into the histogram and reports
// whether the tree has a "hard" leaf (rule of C01/C02).
func leafStats(st *Stats, prefix string, v V) (hard bool) {
	v.Walk(func(n V, key *string, depth int) {
		if key != nil {
			if *key == "" {
				st.Count(prefix + "key.empty")
				hard = true
			} else if hardString(*key) {
				hard = true
				for _, c := range classifyString(*key) {
					st.Count(prefix + "key." + c)
				}
			}
		}
		switch n.K {
		case KFloat:
			f := n.Float()
			switch {
			case f == 0 && math.Signbit(f):
				st.Count(prefix + "float.negzero")
				hard = true
			case f == math.Trunc(f) && math.Abs(f) < 1e21:
				st.Count(prefix + "float.whole")
				hard = true
			case f != 0 && math.Abs(f) < 2.2250738585072014e-308:
				st.Count(prefix + "float.subnormal")
				hard = true
			case math.Abs(f) >= 1e21 || math.Abs(f) < 1e-6:
				st.Count(prefix + "float.exponent")
				hard = true
			default:
				st.Count(prefix + "float.other")
				if len(fmtG(f)) >= 17 {
					hard = true
				}
			}
		case KInt:
			if n.I >= 1<<31 || n.I <= -(1<<31) {
				st.Count(prefix + "int.big")
				hard = true
			} else {
				st.Count(prefix + "int.small")
			}
		case KString:
			if hardString(n.S) {
				hard = true
			}
			for _, c := range classifyString(n.S) {
				st.Count(prefix + "str." + c)
			}
		case KNil:
			st.Count(prefix + "nil")
		case KBool:
			st.Count(prefix + "bool")
		case KList:
			if len(n.L) == 0 {
				st.Count(prefix + "list.empty")
			} else {
				st.Count(prefix + "list")
			}
		case KObject:
			if len(n.O) == 0 {
				st.Count(prefix + "object.empty")
			} else {
				st.Count(prefix + "object")
			}
		}
	})
	return
}
