package harness

import (
	"fmt"
	"reflect"
	"sort"
	"strings"

	at "github.com/DanielSvub/anytype"
	"pgregory.net/rapid"
)

// C19: derived structures keep their identity through fluent calls and storage.

// Derived list types, one to three embedding levels deep.
type DL1 struct{ at.List }
type DL2 struct{ *DL1 }
type DL3 struct{ *DL2 }

// Derived types that are declared, registered and stored BY VALUE (the struct itself, not a pointer to it,
// implements the interface through the embedded one).
type DLV struct{ at.List }
type DOV struct{ at.Object }

// Derived object types.
type DO1 struct{ at.Object }
type DO2 struct{ *DO1 }
type DO3 struct{ *DO2 }

// newDerivedList builds a derived list `depth` embedding levels deep. With
// everyLevel every constructor level registers itself with Init before the
// next level does (the README's NewAnimal / NewDog pattern); otherwise only
// the outermost value calls Init.
func newDerivedList(depth int, everyLevel bool, init ...any) at.List {
	d1 := &DL1{List: at.NewList(init...)}
	if everyLevel || depth == 1 {
		d1.Init(d1)
	}
	if depth == 1 {
		return d1
	}
	d2 := &DL2{DL1: d1}
	if everyLevel || depth == 2 {
		d2.Init(d2)
	}
	if depth == 2 {
		return d2
	}
	d3 := &DL3{DL2: d2}
	d3.Init(d3)
	return d3
}

func newDerivedObject(depth int, everyLevel bool, init ...any) at.Object {
	d1 := &DO1{Object: at.NewObject(init...)}
	if everyLevel || depth == 1 {
		d1.Init(d1)
	}
	if depth == 1 {
		return d1
	}
	d2 := &DO2{DO1: d1}
	if everyLevel || depth == 2 {
		d2.Init(d2)
	}
	if depth == 2 {
		return d2
	}
	d3 := &DO3{DO2: d2}
	d3.Init(d3)
	return d3
}

// rawDerivedList builds the nest of embedding levels WITHOUT registering anything; register does what
// the constructors above do (every level innermost first, or only the outermost value).
func rawDerivedList(depth int, init ...any) (at.List, func(everyLevel bool)) {
	d1 := &DL1{List: at.NewList(init...)}
	d2 := &DL2{DL1: d1}
	d3 := &DL3{DL2: d2}
	switch depth {
	case 1:
		return d1, func(bool) { d1.Init(d1) }
	case 2:
		return d2, func(e bool) {
			if e {
				d1.Init(d1)
			}
			d2.Init(d2)
		}
	}
	return d3, func(e bool) {
		if e {
			d1.Init(d1)
			d2.Init(d2)
		}
		d3.Init(d3)
	}
}

func rawDerivedObject(depth int, init ...any) (at.Object, func(everyLevel bool)) {
	d1 := &DO1{Object: at.NewObject(init...)}
	d2 := &DO2{DO1: d1}
	d3 := &DO3{DO2: d2}
	switch depth {
	case 1:
		return d1, func(bool) { d1.Init(d1) }
	case 2:
		return d2, func(e bool) {
			if e {
				d1.Init(d1)
			}
			d2.Init(d2)
		}
	}
	return d3, func(e bool) {
		if e {
			d1.Init(d1)
			d2.Init(d2)
		}
		d3.Init(d3)
	}
}

type FluentCall struct {
	Name string  `json:"name"`
	A    int     `json:"a,omitempty"`
	B    int     `json:"b,omitempty"`
	V    ValSpec `json:"v"`
}

type C19Case struct {
	Depth    int          `json:"depth"` // embedding depth 1..3
	IsObject bool         `json:"isobject"`
	Calls    []FluentCall `json:"calls"`
	Store    int          `json:"store"` // which storing entry point is used for the storage half
	// InitEveryLevel: each embedding level calls Init in its constructor (README pattern), not only the outermost
	InitEveryLevel bool `json:"initeverylevel"`
	// Size: number of elements / fields the derived value starts with (0 = the default of 3 / 2)
	Size int `json:"size,omitempty"`
	// ByValue: the derived type is a struct value (not a pointer) embedding the interface; depth is 1 then
	ByValue bool `json:"byvalue,omitempty"`
}

// derivingMethods return a new container or an element, not the receiver.
var derivingMethods = map[string]bool{"Clone": true, "Concat": true, "SubList": true, "Map": true, "MapValues": true, "MapObjects": true, "MapLists": true,
	"MapStrings": true, "MapBools": true, "MapInts": true, "MapFloats": true, "MapAsync": true, "Filter": true, "FilterObjects": true, "FilterLists": true,
	"FilterStrings": true, "FilterInts": true, "FilterFloats": true, "Keys": true, "Values": true, "Merge": true, "Pluck": true, "GetList": true, "GetObject": true, "Ego": true}

// fluentMethods computes, from the interface type itself, the methods whose
// single result is the interface and that are not deriving operations.
func fluentMethods(t reflect.Type) []string {
	var out []string
	for i := 0; i < t.NumMethod(); i++ {
		m := t.Method(i)
		if m.Type.NumOut() == 1 && m.Type.Out(0) == t && !derivingMethods[m.Name] {
			out = append(out, m.Name)
		}
	}
	sort.Strings(out)
	return out
}

var (
	listIface      = reflect.TypeOf((*at.List)(nil)).Elem()
	objectIface    = reflect.TypeOf((*at.Object)(nil)).Elem()
	listFluent     = fluentMethods(listIface)
	objectFluent   = fluentMethods(objectIface)
	knownListCalls = map[string]bool{"Add": true, "Insert": true, "Replace": true, "Delete": true, "Pop": true, "Clear": true, "Sort": true, "Reverse": true,
		"ForEach": true, "ForEachValue": true, "ForEachObject": true, "ForEachList": true, "ForEachString": true, "ForEachBool": true, "ForEachInt": true,
		"ForEachFloat": true, "ForEachAsync": true, "SetTF": true, "UnsetTF": true}
	knownObjectCalls = map[string]bool{"Set": true, "Unset": true, "Clear": true, "ForEach": true, "ForEachValue": true, "ForEachObject": true, "ForEachList": true,
		"ForEachString": true, "ForEachBool": true, "ForEachInt": true, "ForEachFloat": true, "ForEachAsync": true, "SetTF": true, "UnsetTF": true}
)

const c19StoreWays = 17

func GenC19(t *rapid.T) *C19Case {
	c := &C19Case{Depth: drawInt(t, 1, 3, "depth"), IsObject: drawBool(t, "isobject"), Store: drawIdx(t, c19StoreWays, "store"), InitEveryLevel: drawBool(t, "initeach")}
	c.ByValue = oneIn(t, 6, "byvalue")
	if oneIn(t, 6, "big") {
		c.Size = []int{64, 65, 100, 200, 1025}[drawIdx(t, 5, "size")] // beyond any batch / worker limit of the async variants
	}
	names := listFluent
	if c.IsObject {
		names = objectFluent
	}
	calls := rapid.SliceOfN(rapid.Custom(func(t *rapid.T) FluentCall {
		return FluentCall{Name: names[drawIdx(t, len(names), "m")], A: genRaw(t), B: genRaw(t), V: genValSpec(t, 2)}
	}), drawInt(t, 1, 12, "mincalls"), 20).Draw(t, "calls")
	c.Calls = calls
	return c
}

// callListFluent performs one fluent call with arguments valid for the
// current content; returns the result and a label of the branch taken.
func callListFluent(l at.List, fc FluentCall) (ret at.List, shape string, ok bool) {
	n := l.Count()
	v := specValue(fc.V)
	switch fc.Name {
	case "Add":
		switch fc.A % 3 {
		case 0:
			return l.Add(), "0args", true
		case 1:
			return l.Add(v), "1arg", true
		}
		return l.Add(v, fc.B), "2args", true
	case "Insert":
		i := fc.A % (n + 1)
		if fc.B%3 == 0 {
			i = n
		}
		if i == n {
			return l.Insert(i, v), "at_end", true
		}
		return l.Insert(i, v), "inside", true
	case "Replace":
		if n == 0 {
			return nil, "", false
		}
		return l.Replace(fc.A%n, v), "", true
	case "Delete":
		switch {
		case fc.B%3 == 0 || n == 0:
			return l.Delete(), "0idx", true
		case fc.B%3 == 1 || n == 1:
			return l.Delete(fc.A % n), "1idx", true
		}
		i := fc.A % n
		j := (i + 1 + fc.B%(n-1)) % n
		return l.Delete(i, j), "2idx", true
	case "Pop":
		if n == 0 {
			return nil, "", false
		}
		return l.Pop(), "", true
	case "Clear":
		return l.Clear(), "", true
	case "Sort":
		if !listInSortDomain(l) {
			return nil, "", false
		}
		kind := fmt.Sprintf("type%d", l.TypeOf(0))
		return l.Sort(), kind, true
	case "Reverse":
		return l.Reverse(), "", true
	case "ForEach":
		return l.ForEach(func(int, any) {}), "", true
	case "ForEachValue":
		return l.ForEachValue(func(any) {}), "", true
	case "ForEachObject":
		return l.ForEachObject(func(at.Object) {}), "", true
	case "ForEachList":
		return l.ForEachList(func(at.List) {}), "", true
	case "ForEachString":
		return l.ForEachString(func(string) {}), "", true
	case "ForEachBool":
		return l.ForEachBool(func(bool) {}), "", true
	case "ForEachInt":
		return l.ForEachInt(func(int) {}), "", true
	case "ForEachFloat":
		return l.ForEachFloat(func(float64) {}), "", true
	case "ForEachAsync":
		return l.ForEachAsync(func(int, any) {}), "", true
	case "SetTF":
		switch fc.A % 6 {
		case 0:
			if n > 0 {
				return l.SetTF(fmt.Sprintf("#%d", fc.B%n), v), "leaf_replace", true
			}
			return l.SetTF("#0", v), "leaf_append", true
		case 1:
			return l.SetTF(fmt.Sprintf("#%d", n), v), "leaf_append", true
		case 2:
			return l.SetTF(fmt.Sprintf("#%d", n+2), v), "leaf_padding", true
		case 3:
			return l.SetTF(fmt.Sprintf("#%d.k", fc.B%(n+2)), v), "dot_next", true
		case 4:
			return l.SetTF(fmt.Sprintf("#%d#1", fc.B%(n+2)), v), "hash_next", true
		}
		return l.SetTF(fmt.Sprintf("#%d.a#0.b", n+1), v), "deep_new", true
	case "UnsetTF":
		if n == 0 {
			return nil, "", false
		}
		i := fc.A % n
		switch l.TypeOf(i) {
		case at.TypeObject:
			if fc.B%2 == 0 {
				return l.UnsetTF(fmt.Sprintf("#%d.k", i)), "nested_object", true
			}
		case at.TypeList:
			if fc.B%2 == 0 && l.GetList(i).Count() > 0 {
				return l.UnsetTF(fmt.Sprintf("#%d#0", i)), "nested_list", true
			}
		}
		return l.UnsetTF(fmt.Sprintf("#%d", i)), "leaf", true
	}
	return nil, "", false
}

func callObjectFluent(o at.Object, fc FluentCall) (ret at.Object, shape string, ok bool) {
	v := specValue(fc.V)
	keys := sortedKeys(o)
	key := []string{"a", "b", "c", "k"}[fc.A%4]
	switch fc.Name {
	case "Set":
		switch fc.A % 3 {
		case 0:
			return o.Set(), "0pairs", true
		case 1:
			return o.Set(key, v), "1pair", true
		}
		return o.Set(key, v, "z", fc.B), "2pairs", true
	case "Unset":
		switch {
		case fc.B%3 == 0:
			return o.Unset(), "0keys", true
		case fc.B%3 == 1 && len(keys) > 0:
			return o.Unset(keys[fc.A%len(keys)]), "present", true
		}
		return o.Unset("missing", key), "missing", true
	case "Clear":
		return o.Clear(), "", true
	case "ForEach":
		return o.ForEach(func(string, any) {}), "", true
	case "ForEachValue":
		return o.ForEachValue(func(any) {}), "", true
	case "ForEachObject":
		return o.ForEachObject(func(at.Object) {}), "", true
	case "ForEachList":
		return o.ForEachList(func(at.List) {}), "", true
	case "ForEachString":
		return o.ForEachString(func(string) {}), "", true
	case "ForEachBool":
		return o.ForEachBool(func(bool) {}), "", true
	case "ForEachInt":
		return o.ForEachInt(func(int) {}), "", true
	case "ForEachFloat":
		return o.ForEachFloat(func(float64) {}), "", true
	case "ForEachAsync":
		return o.ForEachAsync(func(string, any) {}), "", true
	case "SetTF":
		switch fc.A % 5 {
		case 0:
			return o.SetTF("."+key, v), "leaf", true
		case 1:
			return o.SetTF("."+key+".n", v), "dot_next", true
		case 2:
			return o.SetTF("."+key+"#2", v), "hash_next", true
		case 3:
			return o.SetTF(".new.a#1.b", v), "deep_new", true
		}
		if len(keys) > 0 {
			return o.SetTF("."+keys[fc.B%len(keys)]+"#0", v), "hash_over_existing", true
		}
		return o.SetTF(".e#0", v), "hash_next", true
	case "UnsetTF":
		if len(keys) == 0 {
			return o.UnsetTF(".missing"), "missing_leaf", true
		}
		k := keys[fc.A%len(keys)]
		switch o.TypeOf(k) {
		case at.TypeObject:
			if fc.B%2 == 0 {
				return o.UnsetTF("." + k + ".n"), "nested_object", true
			}
		case at.TypeList:
			if fc.B%2 == 0 && o.GetList(k).Count() > 0 {
				return o.UnsetTF("." + k + "#0"), "nested_list", true
			}
		}
		return o.UnsetTF("." + k), "leaf", true
	}
	return nil, "", false
}

// storageCheck stores the derived value d in host containers through entry
// point `way` and reads it back through every retrieval path.
func storageCheck(d any, way int, st *Stats, afterStore func()) error {
	var hostL at.List
	var hostO at.Object
	dl, isList := d.(at.List)
	do, _ := d.(at.Object)
	ways := []string{"NewList", "NewListOf", "NewListFrom[]any", "NewListFrom typed", "Add", "Insert", "Replace", "list.SetTF",
		"NewObject", "NewObjectFrom map[string]any", "NewObjectFrom typed", "Set", "object.SetTF", "nested SetTF",
		"Replace over an equal container", "Set over an equal container", "SetTF over an equal container",
		"Insert after typed reads", "Replace after typed reads", "Add after typed reads", "Set after reads", "list.SetTF after typed reads",
		"deep object path, middle replaced", "deep list path, middle replaced"}
	name := ways[way%len(ways)]
	st.Count("store." + name)
	idx, key := 1, "k"
	var post func() error // asserted once the value has registered itself
	switch name {
	case "NewList":
		hostL = at.NewList("x", d, 3)
	case "NewListOf":
		hostL = at.NewListOf(d, 2)
	case "NewListFrom[]any":
		hostL = at.NewListFrom([]any{"x", d})
	case "NewListFrom typed":
		if isList {
			hostL = at.NewListFrom([]at.List{at.NewList(), dl})
		} else {
			hostL = at.NewListFrom([]at.Object{at.NewObject(), do})
		}
	case "Add":
		hostL = at.NewList("x").Add(d, "y")
	case "Insert":
		hostL = at.NewList("x", "y").Insert(1, d)
	case "Replace":
		hostL = at.NewList("x", "y", "z").Replace(1, d)
	case "list.SetTF":
		hostL = at.NewList("x").SetTF("#1", d)
	case "NewObject":
		hostO = at.NewObject("a", 1, "k", d)
	case "NewObjectFrom map[string]any":
		hostO = at.NewObjectFrom(map[string]any{"a": 1, "k": d})
	case "NewObjectFrom typed":
		if isList {
			hostO = at.NewObjectFrom(map[string]at.List{"k": dl})
		} else {
			hostO = at.NewObjectFrom(map[string]at.Object{"k": do})
		}
	case "Set":
		hostO = at.NewObject("a", 1).Set("k", d)
	case "object.SetTF":
		hostO = at.NewObject("a", 1).SetTF(".k", d)
	case "Replace over an equal container":
		// the slot already holds a plain container with the same content: the derived value must still replace it
		hostL = at.NewList("x", cloneOf(d), "z").Replace(1, d)
	case "Set over an equal container":
		hostO = at.NewObject("a", 1, "k", cloneOf(d)).Set("k", d)
	case "SetTF over an equal container":
		hostO = at.NewObject("a", 1, "k", cloneOf(d)).SetTF(".k", d)
	case "Insert after typed reads":
		// the host has answered every kind of read before the derived value arrives (whatever it remembers
		// from those reads is out of date now); a plain container of the same kind stands before the slot
		hostL = at.NewList(cloneOf(d), "y")
		warmList(hostL)
		hostL.Insert(1, d)
	case "Replace after typed reads":
		hostL = at.NewList(cloneOf(d), "y", "z")
		warmList(hostL)
		hostL.Replace(1, d)
	case "Add after typed reads":
		hostL = at.NewList(cloneOf(d))
		warmList(hostL)
		hostL.Add(d)
	case "list.SetTF after typed reads":
		hostL = at.NewList(cloneOf(d), "y")
		warmList(hostL)
		hostL.SetTF("#1", d)
	case "Set after reads":
		hostO = at.NewObject("a", 1)
		warmObject(hostO)
		hostO.Set("k", d)
	case "deep object path, middle replaced":
		// a path of three links is read, then the container in the middle is replaced through its parent's own
		// handle, then the path is read again
		root := at.NewObject("house", at.NewObject("yard", at.NewObject("k", cloneOf(d), "a", 1)))
		for i := 0; i < 2; i++ {
			if root.GetTF(".house.yard.k") == d || root.TypeOfTF(".house.yard.k") == at.TypeUndefined {
				return errf("deep path read before the derived value was stored is wrong")
			}
		}
		hostO = at.NewObject("a", 1, "k", d)
		root.GetObject("house").Set("yard", hostO)
		post = func() error {
			if got := root.GetTF(".house.yard.k"); got != d {
				return errf("GetTF(.house.yard.k) after the container in the middle of the path was replaced hands back %T %p instead of the derived value %T %p stored there", got, got, d, d)
			}
			if got := root.GetTF(".house.yard"); got != hostO {
				return errf("GetTF(.house.yard) does not hand back the container that replaced the former one")
			}
			return nil
		}
	case "deep list path, middle replaced":
		root := at.NewList(at.NewList(at.NewList("x", cloneOf(d))))
		for i := 0; i < 2; i++ {
			if root.GetTF("#0#0#1") == d || root.TypeOfTF("#0#0#1") == at.TypeUndefined {
				return errf("deep path read before the derived value was stored is wrong")
			}
		}
		hostL = at.NewList("x", d)
		root.GetList(0).Replace(0, hostL)
		post = func() error {
			if got := root.GetTF("#0#0#1"); got != d {
				return errf("GetTF(#0#0#1) after the container in the middle of the path was replaced hands back %T %p instead of the derived value %T %p stored there", got, got, d, d)
			}
			return nil
		}
	case "nested SetTF":
		hostO = at.NewObject().SetTF(".a#1", d)
		hostL, idx = hostO.GetList("a"), 1
		hostO = nil
	}
	if afterStore != nil {
		afterStore()
	}
	// a tree-form write that goes THROUGH the stored value and fails behind it (the caller recovers): the
	// value that is stored must still be the identical derived value afterwards
	failing := "#x"
	if !isList {
		failing = ".zz#x"
	}
	if hostL != nil {
		catch(func() { hostL.SetTF(fmt.Sprintf("#%d%s", idx, failing), 1) })
		catch(func() { hostL.UnsetTF(fmt.Sprintf("#%d%s", idx, failing)) })
	}
	if hostO != nil {
		catch(func() { hostO.SetTF("."+key+failing, 1) })
		catch(func() { hostO.UnsetTF("." + key + failing) })
	}
	st.Count("failed_write_through_first")
	if post != nil {
		if err := post(); err != nil {
			return err
		}
	}
	same := func(what string, got any) error {
		if got != d {
			return errf("%s (stored via %s) hands back %T %p instead of the identical derived value %T %p", what, name, got, got, d, d)
		}
		return nil
	}
	if hostL != nil {
		l := hostL
		if err := same("List.Get", l.Get(idx)); err != nil {
			return err
		}
		wantT := at.TypeObject
		if isList {
			wantT = at.TypeList
		}
		if got := l.TypeOf(idx); got != wantT {
			return errf("List.TypeOf reports %d for a stored derived %T (stored via %s), expected %d", got, d, name, wantT)
		}
		if got := l.TypeOfTF(fmt.Sprintf("#%d", idx)); got != wantT {
			return errf("List.TypeOfTF reports %d for a stored derived %T (stored via %s), expected %d", got, d, name, wantT)
		}
		// a tree-form write that descends THROUGH the stored derived value must reach it, not replace it
		if isList {
			l.SetTF(fmt.Sprintf("#%d#0", idx), "written-through")
			if dl.Count() == 0 || dl.Get(0) != "written-through" {
				return errf("SetTF(#%d#0) on the host did not write into the stored derived list (stored via %s)", idx, name)
			}
		} else {
			l.SetTF(fmt.Sprintf("#%d.wt", idx), "written-through")
			if !do.KeyExists("wt") {
				return errf("SetTF(#%d.wt) on the host did not write into the stored derived object (stored via %s)", idx, name)
			}
		}
		if err := same("List.Get after a tree-form write through the derived value", l.Get(idx)); err != nil {
			return err
		}
		if err := same("List.GetTF", l.GetTF(fmt.Sprintf("#%d", idx))); err != nil {
			return err
		}
		// tree-form reads THROUGH the stored derived value reach what it holds
		through := fmt.Sprintf("#%d.wt", idx)
		if isList {
			through = fmt.Sprintf("#%d#0", idx)
		}
		var inner any
		if p, panicked := catch(func() { inner = l.GetTF(through) }); panicked || inner != "written-through" || l.TypeOfTF(through) != at.TypeString {
			return errf("GetTF(%q)/TypeOfTF on the host do not read through the stored derived value (stored via %s): got %s, panic %v, type %d", through, name, showAny(inner), p, l.TypeOfTF(through))
		}
		if err := same("List.Slice", l.Slice()[idx]); err != nil {
			return err
		}
		found := 0
		l.ForEach(func(i int, x any) {
			if i == idx && x == d {
				found++
			}
		})
		l.ForEachValue(func(x any) {
			if x == d {
				found++
			}
		})
		l.Map(func(i int, x any) any {
			if i == idx && x == d {
				found++
			}
			return nil
		})
		l.MapValues(func(x any) any {
			if x == d {
				found++
			}
			return nil
		})
		wantFound := 4
		if name == "NewListOf" {
			wantFound = 6 // stored twice: ForEachValue and MapValues see it at both positions
		}
		if found != wantFound {
			return errf("ForEach/ForEachValue/Map/MapValues callbacks received the identical derived value %d times, expected %d (stored via %s)", found, wantFound, name)
		}
		if err := same("List.Filter", l.Filter(func(x any) bool { return x == d }).Get(0)); err != nil {
			return err
		}
		if err := same("List.SubList", l.SubList(idx, idx+1).Get(0)); err != nil {
			return err
		}
		if err := same("List.Concat", at.NewList("p").Concat(l).Get(idx+1)); err != nil {
			return err
		}
		if l.IndexOf(d) < 0 || !l.Contains(d) {
			return errf("IndexOf/Contains do not find the stored derived value by identity (stored via %s)", name)
		}
		if isList {
			if err := same("List.GetList", l.GetList(idx)); err != nil {
				return err
			}
			ls := l.ListSlice()
			if err := same("List.ListSlice", ls[len(ls)-1]); err != nil {
				return err
			}
			var got at.List
			l.ForEachList(func(x at.List) { got = x })
			if err := same("List.ForEachList", got); err != nil {
				return err
			}
			got = nil
			l.MapLists(func(x at.List) any { got = x; return nil })
			if err := same("List.MapLists", got); err != nil {
				return err
			}
			f := l.FilterLists(func(x at.List) bool { return any(x) == d })
			if f.Count() == 0 {
				return errf("FilterLists did not pass the identical derived value to the predicate (stored via %s)", name)
			}
			if err := same("List.FilterLists", f.Get(0)); err != nil {
				return err
			}
		} else {
			if err := same("List.GetObject", l.GetObject(idx)); err != nil {
				return err
			}
			os := l.ObjectSlice()
			if err := same("List.ObjectSlice", os[len(os)-1]); err != nil {
				return err
			}
			var got at.Object
			l.ForEachObject(func(x at.Object) { got = x })
			if err := same("List.ForEachObject", got); err != nil {
				return err
			}
			got = nil
			l.MapObjects(func(x at.Object) any { got = x; return nil })
			if err := same("List.MapObjects", got); err != nil {
				return err
			}
			f := l.FilterObjects(func(x at.Object) bool { return any(x) == d })
			if f.Count() == 0 {
				return errf("FilterObjects did not pass the identical derived value to the predicate (stored via %s)", name)
			}
			if err := same("List.FilterObjects", f.Get(0)); err != nil {
				return err
			}
		}
	}
	if hostO != nil {
		o := hostO
		if err := same("Object.Get", o.Get(key)); err != nil {
			return err
		}
		wantT := at.TypeObject
		if isList {
			wantT = at.TypeList
		}
		if got := o.TypeOf(key); got != wantT {
			return errf("Object.TypeOf reports %d for a stored derived %T (stored via %s), expected %d", got, d, name, wantT)
		}
		if got := o.TypeOfTF("." + key); got != wantT {
			return errf("Object.TypeOfTF reports %d for a stored derived %T (stored via %s), expected %d", got, d, name, wantT)
		}
		if isList {
			o.SetTF("."+key+"#0", "written-through")
			if dl.Count() == 0 || dl.Get(0) != "written-through" {
				return errf("SetTF(.%s#0) on the host did not write into the stored derived list (stored via %s)", key, name)
			}
		} else {
			o.SetTF("."+key+".wt", "written-through")
			if !do.KeyExists("wt") {
				return errf("SetTF(.%s.wt) on the host did not write into the stored derived object (stored via %s)", key, name)
			}
		}
		if err := same("Object.Get after a tree-form write through the derived value", o.Get(key)); err != nil {
			return err
		}
		if err := same("Object.GetTF", o.GetTF("."+key)); err != nil {
			return err
		}
		through := "." + key + ".wt"
		if isList {
			through = "." + key + "#0"
		}
		var inner any
		if p, panicked := catch(func() { inner = o.GetTF(through) }); panicked || inner != "written-through" || o.TypeOfTF(through) != at.TypeString {
			return errf("GetTF(%q)/TypeOfTF on the host do not read through the stored derived value (stored via %s): got %s, panic %v, type %d", through, name, showAny(inner), p, o.TypeOfTF(through))
		}
		if err := same("Object.Dict", o.Dict()[key]); err != nil {
			return err
		}
		if err := same("Object.Pluck", o.Pluck(key).Get(key)); err != nil {
			return err
		}
		if !o.Values().Contains(d) {
			return errf("Object.Values does not contain the identical derived value (stored via %s)", name)
		}
		if !o.Contains(d) || o.KeyOf(d) != key {
			return errf("Object.Contains/KeyOf do not find the stored derived value by identity (stored via %s)", name)
		}
		found := 0
		o.ForEach(func(k string, x any) {
			if k == key && x == d {
				found++
			}
		})
		o.ForEachValue(func(x any) {
			if x == d {
				found++
			}
		})
		o.Map(func(k string, x any) any {
			if k == key && x == d {
				found++
			}
			return nil
		})
		o.MapValues(func(x any) any {
			if x == d {
				found++
			}
			return nil
		})
		if found != 4 {
			return errf("object ForEach/ForEachValue/Map/MapValues callbacks received the identical derived value %d times, expected 4 (stored via %s)", found, name)
		}
		if isList {
			if err := same("Object.GetList", o.GetList(key)); err != nil {
				return err
			}
			var got at.List
			o.ForEachList(func(x at.List) { got = x })
			if err := same("Object.ForEachList", got); err != nil {
				return err
			}
			got = nil
			o.MapLists(func(x at.List) any { got = x; return nil })
			if err := same("Object.MapLists", got); err != nil {
				return err
			}
		} else {
			if err := same("Object.GetObject", o.GetObject(key)); err != nil {
				return err
			}
			var got at.Object
			o.ForEachObject(func(x at.Object) { got = x })
			if err := same("Object.ForEachObject", got); err != nil {
				return err
			}
			got = nil
			o.MapObjects(func(x at.Object) any { got = x; return nil })
			if err := same("Object.MapObjects", got); err != nil {
				return err
			}
		}
	}
	return nil
}

// warmList / warmObject: every kind of read on a host before something is stored in it.
func warmList(l at.List) {
	l.ObjectSlice()
	l.ListSlice()
	l.Slice()
	l.ForEachObject(func(at.Object) {})
	l.ForEachList(func(at.List) {})
	l.FilterObjects(func(at.Object) bool { return true })
	l.FilterLists(func(at.List) bool { return true })
	l.MapObjects(func(x at.Object) any { return nil })
	l.MapLists(func(x at.List) any { return nil })
	l.ForEach(func(int, any) {})
	_ = l.String()
	l.AllObjects()
	l.AllLists()
	l.Contains("y")
	l.IndexOf("y")
	for i := 0; i < l.Count(); i++ {
		l.Get(i)
		l.TypeOf(i)
		l.TypeOfTF(fmt.Sprintf("#%d", i))
		l.TypeOfTF(fmt.Sprintf("#%d.wt", i))
		l.TypeOfTF(fmt.Sprintf("#%d#0", i))
	}
	l.TypeOfTF(fmt.Sprintf("#%d", l.Count()))
}

func warmObject(o at.Object) {
	o.Keys()
	o.Values()
	o.Dict()
	o.ForEachObject(func(at.Object) {})
	o.ForEachList(func(at.List) {})
	o.MapObjects(func(x at.Object) any { return nil })
	o.MapLists(func(x at.List) any { return nil })
	o.ForEach(func(string, any) {})
	_ = o.String()
	o.Contains("y")
	o.KeyExists("k")
	o.TypeOf("k")
	o.TypeOfTF(".k")
	o.TypeOfTF(".k.wt")
	o.TypeOfTF(".k#0")
	o.TypeOfTF(".a")
	o.Get("a")
}

var c19Reported bool

func CheckC19(c *C19Case, st *Stats) error {
	if !c19Reported {
		c19Reported = true
		for _, m := range listFluent {
			if !knownListCalls[m] {
				st.Count("unclassified.List." + m)
			}
		}
		for _, m := range objectFluent {
			if !knownObjectCalls[m] {
				st.Count("unclassified.Object." + m)
			}
		}
		st.CountN("fluent_methods.List", len(listFluent))
		st.CountN("fluent_methods.Object", len(objectFluent))
	}
	depth := c.Depth
	if depth < 1 || depth > 3 {
		depth = 1
	}
	var d any
	listInit, objInit := []any{3, 1, 2}, []any{"a", 1, "b", "two"}
	for i := 3; i < c.Size; i++ {
		listInit = append(listInit, i*7%101)
		objInit = append(objInit, fmt.Sprintf("f%d", i), i)
	}
	if c.Size > 0 {
		st.Count("big_derived_value")
	}
	switch {
	case c.ByValue && c.IsObject:
		v := DOV{Object: at.NewObject(objInit...)}
		v.Init(v)
		d, depth = v, 1
		st.Count("derived_by_value")
	case c.ByValue:
		v := DLV{List: at.NewList(listInit...)}
		v.Init(v)
		d, depth = v, 1
		st.Count("derived_by_value")
	case c.IsObject:
		d = newDerivedObject(depth, c.InitEveryLevel, objInit...)
	default:
		d = newDerivedList(depth, c.InitEveryLevel, listInit...)
	}
	if c.InitEveryLevel {
		st.Count("init.every_level")
	} else {
		st.Count("init.outermost_only")
	}
	// Ego returns the registered outer value
	switch x := d.(type) {
	case at.List:
		if any(x.Ego()) != d {
			return errf("Ego() does not return the registered derived value (depth %d)", depth)
		}
	case at.Object:
		if any(x.Ego()) != d {
			return errf("Ego() does not return the registered derived value (depth %d)", depth)
		}
	}
	for i, fc := range c.Calls {
		var ret any
		var shape string
		var ok bool
		p, panicked := catch(func() {
			if c.IsObject {
				var r at.Object
				r, shape, ok = callObjectFluent(d.(at.Object), fc)
				ret = r
			} else {
				var r at.List
				r, shape, ok = callListFluent(d.(at.List), fc)
				ret = r
			}
		})
		if panicked {
			return errf("call %d: %s panicked on a derived value (depth %d): %v", i, fc.Name, depth, p)
		}
		if !ok {
			continue
		}
		kind := "List"
		if c.IsObject {
			kind = "Object"
		}
		st.Count(fmt.Sprintf("call.%s.%s.depth%d", kind, fc.Name, depth))
		if shape != "" {
			st.Count(fmt.Sprintf("shape.%s.%s.%s", kind, fc.Name, strings.ReplaceAll(shape, " ", "_")))
		}
		if ret != d {
			return errf("call %d: %s.%s (branch %q) on a derived value of embedding depth %d returned %T %p instead of the registered outer value %T %p",
				i, kind, fc.Name, shape, depth, ret, ret, d, d)
		}
	}
	st.MarkNonTrivial()
	if err := storageCheck(d, c.Store, st, nil); err != nil {
		return errf("depth %d: %v", depth, err)
	}
	// the same with a value that is stored FIRST and registers itself afterwards: what is stored is the
	// value the caller handed over, so every retrieval path yields the outer value once it is registered
	{
		var late any
		var register func(bool)
		if c.IsObject {
			late, register = rawDerivedObject(depth, "a", 1, "b", "two")
		} else {
			late, register = rawDerivedList(depth, 3, 1, 2)
		}
		st.Count("stored_before_init")
		if err := storageCheck(late, c.Store+len(c.Calls), st, func() { register(c.InitEveryLevel) }); err != nil {
			return errf("depth %d, value stored before it registered itself with Init: %v", depth, err)
		}
	}
	// storing an INNER embedding level of the registered value (e.g. dog.Animal) must not disturb the
	// registration: Ego and fluent calls still yield the outer value
	if depth >= 2 {
		var inner any
		switch x := d.(type) {
		case *DL2:
			inner = x.DL1
		case *DL3:
			inner = x.DL2
		case *DO2:
			inner = x.DO1
		case *DO3:
			inner = x.DO2
		}
		if inner != nil {
			st.Count("stored_inner_level")
			hosts := []func(){
				func() { at.NewList("x").Add(inner) },
				func() { at.NewObject("k", inner) },
				func() { at.NewList().SetTF("#1", inner) },
				func() { at.NewObject().Set("a", 1, "k", inner) },
			}
			hosts[c.Store%len(hosts)]()
			switch x := d.(type) {
			case at.List:
				if any(x.Ego()) != d || any(x.Reverse()) != d {
					return errf("after an inner embedding level of the derived list was stored in another container, Ego()/Reverse() no longer return the registered outer value (depth %d)", depth)
				}
			case at.Object:
				if any(x.Ego()) != d || any(x.Unset("nope")) != d {
					return errf("after an inner embedding level of the derived object was stored in another container, Ego()/Unset() no longer return the registered outer value (depth %d)", depth)
				}
			}
		}
	}
	return nil
}

func init() {
	Register("C19",
		"user types embedding List / Object one, two and three levels deep (pointer types; in one case of six a struct type used by value), registered with Init either at every constructor level (the README pattern) or only by the outermost value. The fluent set is computed from the interface types by reflection (methods whose single result is the interface, minus the deriving operations; methods unknown to the harness are reported as unclassified): 19 on List, 14 on Object. Programs of 1-20 fluent calls with arguments valid for the current content cover every branch (Add with 0/1/2 values, Insert inside/at the end, Delete with 0/1/2 indices, Sort on ints/strings/floats, SetTF leaf replace/append/padding/./#/deep, UnsetTF leaf/nested, Set 0/1/2 pairs, Unset present/missing/none, all ForEach variants incl. ForEachAsync); every call must return the identical registered outer value and Ego() too. One case in six starts with 64-1025 elements / fields (beyond any batch or worker limit of the async variants). Then the derived value is stored through one of 17 entry points (once already registered, once registering itself only after it was stored) (constructors incl. typed slices/maps, Add, Insert, Replace, Set, tree-form writes) and read back through Get, GetList/GetObject, GetTF, Slice, Dict, Values, Pluck, SubList, Concat, Filter*, typed slices, every ForEach/Map callback, IndexOf/Contains/KeyOf: always the identical outer value. Every case is non-trivial (a derived value is exercised); distinct = distinct FNV-64a hash of the case JSON. Seven more storage routes: Insert / Replace / Add / list.SetTF / Set into a host that has answered every kind of read (typed slices, typed iteration, filters, tree-form type queries) before the store, and a three-link tree-form path (object and list spelling) that is read, whose middle container is then replaced through its parent's own handle, and that is read again. After every store, tree-form writes and removals that go through the stored value and fail behind it (recovered by the caller) precede the retrievals.",
		GenC19, CheckC19)
}
