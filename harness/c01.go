package harness

import (
	at "github.com/DanielSvub/anytype"
	"pgregory.net/rapid"
)

// C01: serialise -> parse round trip preserves every value and its kind.

type C01Case struct {
	Root V `json:"root"`
	// Muts: mutations of (nested) containers after the first round trip; the round trip is then repeated
	Muts []CloneMut `json:"muts,omitempty"`
	// Share: the root holds the same non-empty container content twice and is built with ONE instance at
	// both places (an acyclic structure in which a container is reachable along two paths)
	Share bool `json:"share,omitempty"`
	// Route != 0: the container is built through the construction routes of BuildVariant (NewListOf +
	// Replace, Concat of halves, SubList of a longer list, typed-slice origin, spare capacity, parser ...)
	Route int `json:"route,omitempty"`
	// Poison > 0: before the round trip both parsers are given the container's own text cut after
	// Poison mod len bytes (a truncated document: the parse fails, usually in the middle of a literal);
	// whatever the failed parse leaves behind must not reach the next one
	Poison int `json:"poison,omitempty"`
}

// poisonParser hands a truncated copy of text to both parsers and ignores what they make of it.
func poisonParser(text string, cut int) {
	if cut <= 0 || len(text) == 0 {
		return
	}
	p := text[:cut%len(text)]
	guarded("parser", callParseList(p))
	guarded("parser", callParseObject(p))
}

// genRoute draws the construction-route seed of a text-property case: 0 (plain Add/Set) in three cases of four.
func genRoute(t *rapid.T, share bool) int {
	if share || !oneIn(t, 4, "route") {
		return 0
	}
	return 1 + genRaw(t)
}

func genTreeCase(t *rapid.T) V {
	cfg := DefaultTreeCfg()
	if Thorough() && oneIn(t, 200, "chainclass") {
		return GenChain(t, cfg, 400)
	}
	if oneIn(t, 31, "chainclass") {
		return GenChain(t, cfg, 40)
	}
	if oneIn(t, 40, "paddedkeys") {
		// keys that differ only in the zero padding of a digit run, side by side in one object
		v := GenRoot(t, cfg)
		twins := VObj(Pair{"1", VInt(1)}, Pair{"01", VStr("01")}, Pair{"row7", VList()}, Pair{"row007", VNil()}, Pair{"a.0", VBool(true)}, Pair{"a.00", VFloat(0)}, Pair{"10", VInt(10)}, Pair{"010", VInt(8)})
		if v.K == KList {
			v.L = append(v.L, twins)
			return v
		}
		return twins
	}
	if oneIn(t, 400, "verydeep") {
		// beyond any plausible depth guard of the serialiser (quick: 1001-1500 levels)
		v := GenChain(t, cfg, 500)
		for i := 0; i < 1000; i++ {
			v = VList(v)
		}
		return v
	}
	return GenRoot(t, cfg)
}

// withSharedChild appends a copy of one non-empty container child to the root, so that the tree holds
// the same content twice; built with BuildSharing both places are ONE instance (an acyclic structure in
// which a container is reachable along two paths). ok is false if the root has no such child.
func withSharedChild(t *rapid.T, a V) (V, bool) {
	var kids []V
	if a.K == KList {
		for _, e := range a.L {
			if (e.K == KList && len(e.L) > 0) || (e.K == KObject && len(e.O) > 0) {
				kids = append(kids, e)
			}
		}
	} else {
		for _, p := range a.O {
			if (p.V.K == KList && len(p.V.L) > 0) || (p.V.K == KObject && len(p.V.O) > 0) {
				kids = append(kids, p.V)
			}
		}
	}
	if len(kids) == 0 {
		return a, false
	}
	dup := kids[drawIdx(t, len(kids), "dup")].Clone()
	if a.K == KList {
		a.L = append(append([]V{}, a.L...), dup)
		return a, true
	}
	if _, taken := a.Field("dup"); taken {
		return a, false
	}
	a.O = append(append([]Pair{}, a.O...), Pair{"dup", dup})
	return a, true
}

// buildMaybeShared builds the container of a text-property case.
func buildMaybeShared(root V, share bool, route int) any {
	if share {
		return BuildSharing(root)
	}
	if route != 0 && root.Depth() < 100 {
		return BuildVariant(root, route)
	}
	return Build(root)
}

func GenC01(t *rapid.T) *C01Case {
	c := &C01Case{Root: genTreeCase(t)}
	if oneIn(t, 8, "share") {
		c.Root, c.Share = withSharedChild(t, c.Root)
	}
	c.Route = genRoute(t, c.Share)
	if oneIn(t, 6, "poison") {
		c.Poison = 1 + genRaw(t)
	}
	if oneIn(t, 5, "remutate") {
		c.Muts = genNestedMuts(t)
	}
	return c
}

// parseRoot parses text with the parser matching the root kind.
// The call runs under the termination watchdog of C04 so that a parser that
// stops advancing is reported as a failure instead of wedging the shard.
func parseRoot(kind Kind, text string) (any, error) {
	call := callParseObject(text)
	if kind == KList {
		call = callParseList(text)
	}
	o, gerr := guarded("parser", call)
	if gerr != nil {
		return nil, gerr
	}
	return o.c, o.err
}

func equalsBoth(a, b any) (ab, ba bool) {
	switch x := a.(type) {
	case at.List:
		y := b.(at.List)
		return x.Equals(y), y.Equals(x)
	case at.Object:
		y := b.(at.Object)
		return x.Equals(y), y.Equals(x)
	}
	return false, false
}

func stringOf(c any) string {
	switch x := c.(type) {
	case at.List:
		return x.String()
	case at.Object:
		return x.String()
	}
	return ""
}

func CheckC01(c *C01Case, st *Stats) error {
	if c.Root.K != KList && c.Root.K != KObject {
		return nil
	}
	orig := buildMaybeShared(c.Root, c.Share, c.Route)
	if c.Share {
		st.Count("shared_instance")
	}
	if c.Poison > 0 {
		var text string
		if _, panicked := catch(func() { text = stringOf(orig) }); !panicked {
			poisonParser(text, c.Poison)
			st.Count("failed_parse_first")
		}
	}
	if err := roundTrip(orig, c.Root, st); err != nil {
		return err
	}
	for i, m := range c.Muts {
		ids := Idents(orig)
		target := ids[m.Node%len(ids)]
		var applied bool
		if p, panicked := catch(func() { applied = applyCloneMut(orig, target, m) }); panicked {
			return errf("mutation %d (%s) panicked: %v", i, m.Op, p)
		}
		if !applied {
			continue
		}
		now, err := Snap(orig)
		if err != nil {
			return err
		}
		st.Count("roundtrip_again_after." + m.Op)
		if err := roundTrip(orig, now, NewStats()); err != nil {
			return errf("after a %s on a nested container: %v", m.Op, err)
		}
	}
	return nil
}

// roundTrip serialises orig (whose content is root), parses the text and compares.
func roundTrip(orig any, root V, st *Stats) error {
	c := &C01Case{Root: root}
	if leafStats(st, "", c.Root) {
		st.MarkNonTrivial()
	}
	st.Count("root." + c.Root.K.String())
	if d := c.Root.Depth(); d >= 20 {
		st.Count("depth>=20")
	}
	text := stringOf(orig)
	parsed, err := parseRoot(c.Root.K, text)
	if err != nil {
		return errf("parsing the container's own String() failed: %v\n tree: %s\n text: %s", err, c.Root.Show(), clip(text, 300))
	}
	if parsed == nil {
		return errf("parser returned nil container and nil error for %s", clip(text, 300))
	}
	ab, ba := equalsBoth(parsed, orig)
	snap, serr := Snap(parsed)
	if serr != nil {
		return errf("re-parsed container is inconsistent: %v", serr)
	}
	// kind-exact comparison, independent of Equals
	if !EqV(snap, c.Root) {
		return errf("round trip changed the content or a kind:\n original: %s\n text:     %s\n re-parsed: %s", c.Root.Show(), clip(text, 300), snap.Show())
	}
	if !ab || !ba {
		return errf("re-parsed container does not Equal the original (parsed.Equals(orig)=%v orig.Equals(parsed)=%v) although contents match: %s", ab, ba, c.Root.Show())
	}
	// second generation
	text2 := stringOf(parsed)
	parsed2, err := parseRoot(c.Root.K, text2)
	if err != nil || parsed2 == nil {
		return errf("second-generation parse failed: %v on %s", err, clip(text2, 300))
	}
	snap2, serr := Snap(parsed2)
	if serr != nil {
		return errf("second-generation container inconsistent: %v", serr)
	}
	if !EqV(snap2, c.Root) {
		return errf("second round trip changed the content: %s -> %s", c.Root.Show(), snap2.Show())
	}
	ab, ba = equalsBoth(parsed2, parsed)
	ab2, ba2 := equalsBoth(parsed2, orig)
	if !ab || !ba || !ab2 || !ba2 {
		return errf("second-generation container not Equal to first/original (%v %v %v %v): %s", ab, ba, ab2, ba2, c.Root.Show())
	}
	// the caller owns what the parser handed out: after both parsed containers were modified, the unchanged
	// text must still parse to the original content
	for _, p := range []any{parsed, parsed2} {
		catch(func() {
			switch x := p.(type) {
			case at.List:
				x.Insert(0, "edited by the caller").Add("edited by the caller")
			case at.Object:
				x.Set("edited by the caller", true)
				for _, k := range sortedKeys(x) {
					x.Set(k, "edited by the caller")
					break
				}
			}
		})
	}
	parsed3, err := parseRoot(c.Root.K, text)
	if err != nil || parsed3 == nil {
		return errf("parsing the same text again (after the earlier results were modified) failed: %v on %s", err, clip(text, 300))
	}
	snap3, serr := Snap(parsed3)
	if serr != nil {
		return errf("third parse: container inconsistent: %v", serr)
	}
	if !EqV(snap3, c.Root) {
		return errf("parsing the same text again after the earlier parse results were modified gives other content:\n original: %s\n now:      %s", c.Root.Show(), snap3.Show())
	}
	return nil
}

func init() {
	Register("C01",
		"rapid-generated value trees (one in eight holds ONE container instance at two places; now and then 1001-1500 nesting levels) (list or object root; leaves and keys from class tables: whole-valued/-0/subnormal/extreme/17-digit floats, edge ints, strings with C0/DEL/C1/U+2028/U+FFFD/non-characters/astral/JSON-special runes, empty key; deep-chain class). Non-trivial = tree has at least one hard leaf (whole-valued, -0, subnormal, exponent-form or 17-digit float; |int| >= 2^31; string or key with a rune outside printable ASCII or a JSON-special character; empty key). Distinct = distinct FNV-64a hash of the case JSON. One case in four (not the shared-instance ones) builds the container through the construction routes of BuildVariant (NewListOf+Replace, Concat of halves, SubList of a longer list, typed-slice origin, spare capacity, parser); one in six first hands both parsers the container's own text cut at a drawn byte (a failed parse, usually inside a literal) and only then parses the whole text; floats include values 1-3 ulps beside short decimals; nested mutations include Sort of a list of several kinds and clear-and-refill with other keys. After the second generation both parse results are modified and the unchanged text is parsed a third time: it must still give the original content.",
		GenC01, CheckC01)
}
