package harness

import (
	"fmt"
	"sort"
	"strconv"
	"strings"
	"unicode/utf8"

	at "github.com/DanielSvub/anytype"
	"pgregory.net/rapid"
)

// C11: tree-form writes hit exactly the addressed slot and nothing else.

type TFWrite struct {
	Path   string `json:"path"`
	Unset  bool   `json:"unset,omitempty"`
	Val    V      `json:"val"`
	Native bool   `json:"native,omitempty"` // pass containers as native Go maps/slices
	// Ref: the value is the container that is at this path of the tree at the time of the write (moving or
	// linking a subtree: the same instance is then reachable at two places until one is unset);
	// Wrap 1/2: the value is a new list / object holding that container
	Ref  string `json:"ref,omitempty"`
	Wrap int    `json:"wrap,omitempty"`
	// NativeDup (with Native): the last child of the value is a copy of its first container child, and in
	// the Go value both places hold ONE map / slice instance (e.g. a shared 'defaults' map); the tree must
	// still get two independent containers
	NativeDup bool `json:"nativedup,omitempty"`
	// Reverse: not a tree-form write but Reverse() of the list at Path ("" = the root), called through the
	// list's own handle between two writes: its elements (containers included) move, and a later write
	// along the same path must reach what is at that path THEN
	Reverse bool `json:"reverse,omitempty"`
}

// aliasNativeDup makes the last entry of a native map / slice the same Go instance as its first container entry.
func aliasNativeDup(x any, val V) any {
	switch t := x.(type) {
	case []any:
		for i, e := range val.L[:len(val.L)-1] {
			if (e.K == KList && len(e.L) > 0) || (e.K == KObject && len(e.O) > 0) {
				t[len(t)-1] = t[i]
				break
			}
		}
	case map[string]any:
		for _, p := range val.O[:len(val.O)-1] {
			if (p.V.K == KList && len(p.V.L) > 0) || (p.V.K == KObject && len(p.V.O) > 0) {
				t[val.O[len(val.O)-1].K] = t[p.K]
				break
			}
		}
	}
	return x
}

// tReaches reports whether b is a or reachable from a.
func tReaches(a, b *tnode) bool {
	if a == b {
		return true
	}
	for _, e := range a.elems {
		if tReaches(e, b) {
			return true
		}
	}
	for _, e := range a.fields {
		if tReaches(e, b) {
			return true
		}
	}
	return false
}

// containerPaths lists an addressable path for every container below the root (pre-order, keys sorted).
func containerPaths(n *tnode, prefix []tfSeg, out *[][]tfSeg, nodes *[]*tnode, budget *int) {
	visit := func(seg tfSeg, child *tnode) {
		if *budget <= 0 || (child.k != KList && child.k != KObject) {
			return
		}
		*budget--
		p := append(append([]tfSeg{}, prefix...), seg)
		*out = append(*out, p)
		*nodes = append(*nodes, child)
		if len(p) < 6 {
			containerPaths(child, p, out, nodes, budget)
		}
	}
	switch n.k {
	case KList:
		for i, e := range n.elems {
			visit(tfSeg{'#', strconv.Itoa(i)}, e)
		}
	case KObject:
		keys := make([]string, 0, len(n.fields))
		for k := range n.fields {
			if k != "" && !strings.ContainsAny(k, ".#") {
				keys = append(keys, k)
			}
		}
		sort.Strings(keys)
		for _, k := range keys {
			visit(tfSeg{'.', k}, n.fields[k])
		}
	}
}

// nodeAt resolves a parsed path in the model (nil if it does not resolve).
func nodeAt(root *tnode, segs []tfSeg) *tnode {
	cur := root
	for _, sg := range segs {
		if (cur.k == KObject) != (sg.sigil == '.') || (cur.k != KObject && cur.k != KList) {
			return nil
		}
		child, _ := slotOf(cur, sg)
		if child == nil {
			return nil
		}
		cur = child
	}
	return cur
}

// wouldCycle: storing val at segs would make val reachable from itself (a container resolved along the path
// - the one that will hold the value included - is val or lies inside val).
func wouldCycle(root *tnode, segs []tfSeg, val *tnode) bool {
	cur := root
	for i, sg := range segs {
		if tReaches(val, cur) {
			return true
		}
		if i == len(segs)-1 {
			break
		}
		if (cur.k == KObject) != (sg.sigil == '.') {
			return false // the rest of the path is created afresh
		}
		child, _ := slotOf(cur, sg)
		need := KObject
		if segs[i+1].sigil == '#' {
			need = KList
		}
		if child == nil || child.k != need {
			return false
		}
		cur = child
	}
	return false
}

type C11Case struct {
	Root   V         `json:"root"`
	Writes []TFWrite `json:"writes"`
	Build  int       `json:"build,omitempty"` // construction-route seed (0 = Add/Set)
	// Latin1: keys and paths are re-encoded at check time so that U+0080..U+00FF become single bytes
	// (keys that are not valid UTF-8); the JSON of the case keeps the readable spelling
	Latin1 bool `json:"latin1,omitempty"`
}

// tnode is the reference tree with identities.
type tnode struct {
	k      Kind
	sc     V // scalar payload
	elems  []*tnode
	fields map[string]*tnode
	impl   any // bound implementation container; nil for a container the library is expected to create
}

func tFromV(v V) *tnode {
	n := &tnode{k: v.K}
	switch v.K {
	case KList:
		for _, e := range v.L {
			n.elems = append(n.elems, tFromV(e))
		}
	case KObject:
		n.fields = map[string]*tnode{}
		for _, p := range v.O {
			n.fields[p.K] = tFromV(p.V)
		}
	default:
		n.sc = v
	}
	return n
}

func (n *tnode) toV() V {
	switch n.k {
	case KList:
		out := V{K: KList}
		for _, e := range n.elems {
			out.L = append(out.L, e.toV())
		}
		return out
	case KObject:
		out := V{K: KObject}
		ks := make([]string, 0, len(n.fields))
		for k := range n.fields {
			ks = append(ks, k)
		}
		sort.Strings(ks)
		for _, k := range ks {
			out.O = append(out.O, Pair{k, n.fields[k].toV()})
		}
		return out
	}
	return n.sc
}

// cmpT compares the reference tree with the implementation, binding fresh
// containers: a node with impl == nil must be a container never seen before.
func cmpT(n *tnode, x any, seen map[any]bool, path string) error {
	switch n.k {
	case KList:
		l, ok := x.(at.List)
		if !ok {
			return errf("%s: expected a list, found %s", path, showAny(x))
		}
		if n.impl != nil {
			if n.impl != x {
				return errf("%s: the list at this position is not the identical container that was there before (an existing intermediate was copied or replaced)", path)
			}
		} else {
			if seen[x] {
				return errf("%s: expected a newly created list, found a container that already existed elsewhere", path)
			}
			n.impl = x
		}
		seen[x] = true
		if l.Count() != len(n.elems) {
			return errf("%s: list has %d elements, reference model %d (%s vs %s)", path, l.Count(), len(n.elems), clip(l.String(), 150), n.toV().Show())
		}
		for i, e := range n.elems {
			if err := cmpT(e, l.Get(i), seen, path+"#"+strconv.Itoa(i)); err != nil {
				return err
			}
		}
	case KObject:
		o, ok := x.(at.Object)
		if !ok {
			return errf("%s: expected an object, found %s", path, showAny(x))
		}
		if n.impl != nil {
			if n.impl != x {
				return errf("%s: the object at this position is not the identical container that was there before (an existing intermediate was copied or replaced)", path)
			}
		} else {
			if seen[x] {
				return errf("%s: expected a newly created object, found a container that already existed elsewhere", path)
			}
			n.impl = x
		}
		seen[x] = true
		if o.Count() != len(n.fields) {
			return errf("%s: object has %d fields, reference model %d (%s vs %s)", path, o.Count(), len(n.fields), clip(o.String(), 150), n.toV().Show())
		}
		// what the object lists and iterates over must be the same field set (an index kept next to the map)
		listed := o.Keys()
		visited := 0
		o.ForEach(func(k string, _ any) {
			if _, ok := n.fields[k]; ok {
				visited++
			} else {
				visited = -1 << 30
			}
		})
		if listed.Count() != len(n.fields) || visited != len(n.fields) {
			return errf("%s: Keys() lists %s and ForEach visits %d known fields, the reference model has %d fields (%s)", path, clip(listed.String(), 150), visited, len(n.fields), n.toV().Show())
		}
		for i := 0; i < listed.Count(); i++ {
			k, _ := listed.Get(i).(string)
			if _, ok := n.fields[k]; !ok {
				return errf("%s: Keys() lists %+q which the reference model does not have (%s)", path, k, n.toV().Show())
			}
		}
		for k, e := range n.fields {
			if !o.KeyExists(k) {
				return errf("%s: key %+q missing (object %s, reference %s)", path, k, clip(o.String(), 150), n.toV().Show())
			}
			if err := cmpT(e, o.Get(k), seen, path+"."+k); err != nil {
				return err
			}
		}
	default:
		got, err := Snap(x)
		if err != nil {
			return err
		}
		if !EqVBits(got, n.sc) {
			return errf("%s: value is %s, reference model has %s", path, got.Show(), n.sc.Show())
		}
	}
	return nil
}

func newContainerNode(k Kind) *tnode {
	n := &tnode{k: k}
	if k == KObject {
		n.fields = map[string]*tnode{}
	}
	return n
}

func nilNode() *tnode { return &tnode{k: KNil, sc: VNil()} }

// slotOf returns the child addressed by seg in cur (nil if absent).
func slotOf(cur *tnode, seg tfSeg) (*tnode, int) {
	if cur.k == KObject {
		return cur.fields[seg.text], 0
	}
	idx, _ := canonicalIndex(seg.text)
	if idx < len(cur.elems) {
		return cur.elems[idx], idx
	}
	return nil, idx
}

func putSlot(cur *tnode, seg tfSeg, child *tnode) {
	if cur.k == KObject {
		cur.fields[seg.text] = child
		return
	}
	idx, _ := canonicalIndex(seg.text)
	for len(cur.elems) < idx {
		cur.elems = append(cur.elems, nilNode())
	}
	if idx < len(cur.elems) {
		cur.elems[idx] = child
	} else {
		cur.elems = append(cur.elems, child)
	}
}

// refSet is the reference writer: the rules of the statement.
func refSet(root *tnode, segs []tfSeg, val *tnode, st *Stats) {
	cur := root
	for i, seg := range segs {
		kindName := "list"
		if cur.k == KObject {
			kindName = "object"
		}
		child, idx := slotOf(cur, seg)
		sit := "missing"
		if cur.k == KList && child == nil {
			if idx == len(cur.elems) {
				sit = "missing_at_n"
			} else {
				sit = "missing_beyond_n"
			}
		}
		if i == len(segs)-1 {
			if child != nil {
				sit = "present"
			}
			if st != nil {
				st.Count("cell." + kindName + ".leaf." + sit)
			}
			putSlot(cur, seg, val)
			return
		}
		need := KObject
		next := "dot"
		if segs[i+1].sigil == '#' {
			need = KList
			next = "hash"
		}
		if child != nil {
			switch {
			case child.k == need:
				sit = "right_kind"
			case child.k == KNil:
				sit = "wrong_nil"
			case child.k == KList || child.k == KObject:
				sit = "wrong_container"
			default:
				sit = "wrong_scalar"
			}
		}
		if st != nil {
			st.Count("cell." + kindName + "." + next + "." + sit)
		}
		if child == nil || child.k != need {
			child = newContainerNode(need)
			putSlot(cur, seg, child)
		}
		cur = child
	}
}

// refUnset removes the addressed entry if the path resolves; reports whether it did.
func refUnset(root *tnode, segs []tfSeg) bool {
	cur := root
	for i, seg := range segs {
		if (cur.k == KObject) != (seg.sigil == '.') || (cur.k != KObject && cur.k != KList) {
			return false
		}
		child, idx := slotOf(cur, seg)
		if child == nil {
			return false
		}
		if i == len(segs)-1 {
			if cur.k == KObject {
				delete(cur.fields, seg.text)
			} else {
				cur.elems = append(cur.elems[:idx:idx], cur.elems[idx+1:]...)
			}
			return true
		}
		cur = child
	}
	return false
}

// genWritePath draws a well-formed path for the current reference tree.
func genWritePath(t *rapid.T, root *tnode, forUnset bool) []tfSeg {
	var segs []tfSeg
	cur := root
	virtual := false // cur is a container that would be created by the write
	maxSeg := drawInt(t, 1, 5, "pathlen")
	if root.toV().Depth() > 20 && !oneIn(t, 3, "shortpath") {
		maxSeg = 80 // deep chains: paths with dozens of segments (depth guards, recursion limits)
	}
	for len(segs) < maxSeg {
		var seg tfSeg
		var child *tnode
		if cur.k == KObject {
			var keys []string
			for k := range cur.fields {
				if k != "" && !strings.ContainsAny(k, ".#") {
					keys = append(keys, k) // distractor keys are not addressable
				}
			}
			sort.Strings(keys)
			existing := 75
			if forUnset {
				existing = 90
			}
			if maxSeg > 5 {
				existing = 98
			}
			if len(keys) > 0 && !virtual && drawInt(t, 0, 99, "existing") < existing {
				k := keys[drawIdx(t, len(keys), "key")]
				seg = tfSeg{'.', k}
				child = cur.fields[k]
			} else {
				seg = tfSeg{'.', tfKeys[drawIdx(t, len(tfKeys), "newkey")]}
				child = cur.fields[seg.text]
			}
		} else {
			n := len(cur.elems)
			var idx int
			choice := pick(t, "idx", 55, 20, 25)
			if forUnset {
				choice = pick(t, "idx", 85, 8, 7)
			}
			if maxSeg > 5 {
				choice = pick(t, "idx", 97, 2, 1)
			}
			switch {
			case choice == 0 && n > 0:
				idx = drawIdx(t, n, "i")
				if n > 20 && drawBool(t, "tail") {
					idx = n - 1 - drawInt(t, 0, 2, "fromend")
				}
			case choice == 1 || n == 0 && choice == 0:
				idx = n
			default:
				idx = n + drawInt(t, 1, 4, "beyond")
				if oneIn(t, 6, "fargap") {
					// a gap of 63-65, 127-129, 192, 256, 1024 positions (padding in blocks)
					idx = n + []int{63, 64, 65, 127, 128, 129, 192, 256, 1024}[drawIdx(t, 9, "gap")]
				}
			}
			seg = tfSeg{'#', strconv.Itoa(idx)}
			if idx < n {
				child = cur.elems[idx]
			}
		}
		segs = append(segs, seg)
		if len(segs) >= maxSeg {
			break
		}
		// choose the next sigil: follow the child's kind or deliberately not
		var nextKind Kind
		if child != nil && (child.k == KList || child.k == KObject) && (drawInt(t, 0, 9, "follow") < 7 || (maxSeg > 5 && !oneIn(t, 30, "leave"))) {
			nextKind = child.k
		} else if drawBool(t, "nextlist") {
			nextKind = KList
		} else {
			nextKind = KObject
		}
		if child != nil && child.k == nextKind {
			cur = child
		} else {
			cur = newContainerNode(nextKind)
			virtual = true
		}
	}
	return segs
}

func tfTreeRoot(t *rapid.T) V { return tfTreeRootD(t, false) }

// tfTreeRootD: with distract, one key in five is a key no tree-form path can address ("", "a.b",
// "#1", ".a", "a#0"); such entries are never on a write path and must survive every write.
func tfTreeRootD(t *rapid.T, distract bool) V {
	root := tfTreeRoot0(t, distract)
	if oneIn(t, 6, "twinlist") {
		// a scalar list together with a sibling that starts with the same content (the construction
		// routes may then derive the sibling from it with Concat)
		n := drawInt(t, 1, 7, "twinlen")
		base := V{K: KList}
		for i := 0; i < n; i++ {
			base.L = append(base.L, VInt(drawInt(t, 0, 9, "tv")))
		}
		twin := base.Clone()
		for i, m := 0, drawInt(t, 0, 2, "twinextra"); i < m; i++ {
			twin.L = append(twin.L, VStr("extra"))
		}
		if root.K == KList {
			root.L = append(root.L, base, twin)
		} else if _, dup := root.Field("base"); !dup {
			if _, dup2 := root.Field("twin"); !dup2 {
				root.O = append(root.O, Pair{"base", base}, Pair{"twin", twin})
			}
		}
	}
	if oneIn(t, 15, "deepchain") {
		cfg := tfTreeCfg()
		cfg.LongLists = false
		inner := GenChain(t, cfg, 70)
		if root.K == KList {
			root.L = append(root.L, inner)
		} else if _, dup := root.Field("chain"); !dup {
			root.O = append(root.O, Pair{"chain", inner})
		}
	}
	return root
}

func tfTreeRoot0(t *rapid.T, distract bool) V {
	cfg := tfTreeCfg()
	if distract {
		cfg.KeyGen = func(t *rapid.T) string {
			if oneIn(t, 5, "dk") {
				return []string{"", "a.b", "#1", ".a", "a#0"}[drawInt(t, 0, 4, "dkk")]
			}
			return tfKeyGen(t)
		}
	}
	n := drawInt(t, 0, 4, "rootw")
	var root V
	if drawBool(t, "rootlist") {
		root = V{K: KList}
		for i := 0; i < n; i++ {
			root.L = append(root.L, GenValue(t, cfg, 4))
		}
	} else {
		root = V{K: KObject}
		seen := map[string]bool{}
		for i := 0; i < n; i++ {
			k := genKey(t, cfg)
			if seen[k] {
				continue
			}
			seen[k] = true
			root.O = append(root.O, Pair{k, GenValue(t, cfg, 4)})
		}
	}
	return root
}

func GenC11(t *rapid.T) *C11Case {
	root := tfTreeRootD(t, oneIn(t, 4, "distractors"))
	c := &C11Case{Root: root, Latin1: oneIn(t, 5, "latin1")}
	if drawBool(t, "variant") {
		c.Build = 1 + genRaw(t)
	}
	model := tFromV(root)
	nw := drawInt(t, 1, 5, "nwrites")
	cfg := tfTreeCfg()
	var lastSet []tfSeg
	reuse := false
	for i := 0; i < nw; i++ {
		if lastSet != nil && !reuse && oneIn(t, 4, "reversebetween") {
			// a list on (or off) the path of the last write is reversed through its own handle; the next
			// write then often goes along exactly the same path again
			var cands [][]tfSeg
			for k := len(lastSet) - 1; k >= 0; k-- {
				if x := nodeAt(model, lastSet[:k]); x != nil && x.k == KList && len(x.elems) >= 2 {
					cands = append(cands, lastSet[:k])
				}
			}
			if len(cands) > 0 {
				p := cands[drawIdx(t, len(cands), "revwhich")]
				x := nodeAt(model, p)
				for a, b := 0, len(x.elems)-1; a < b; a, b = a+1, b-1 {
					x.elems[a], x.elems[b] = x.elems[b], x.elems[a]
				}
				c.Writes = append(c.Writes, TFWrite{Path: joinTF(p), Reverse: true})
				reuse = drawBool(t, "samepath")
			}
		}
		unset := oneIn(t, 4, "unset")
		segs := genWritePath(t, model, unset)
		if reuse {
			unset, segs, reuse = false, append([]tfSeg{}, lastSet...), false
		}
		if !unset {
			lastSet = segs
		}
		w := TFWrite{Path: joinTF(segs), Unset: unset}
		if !unset && oneIn(t, 6, "refvalue") {
			// the value is a container that is already in the tree (or a new container holding it)
			var paths [][]tfSeg
			var nodes []*tnode
			budget := 40
			containerPaths(model, nil, &paths, &nodes, &budget)
			if len(paths) > 0 {
				k := drawIdx(t, len(paths), "refnode")
				x := nodes[k]
				if oneIn(t, 3, "ownslot") {
					segs = paths[k] // written over its own slot (only meaningful wrapped)
					w.Path = joinTF(segs)
				}
				if !wouldCycle(model, segs, x) {
					w.Ref, w.Wrap = joinTF(paths[k]), drawInt(t, 0, 2, "wrap")
					val := x
					switch w.Wrap {
					case 1:
						val = &tnode{k: KList, elems: []*tnode{x}}
					case 2:
						val = &tnode{k: KObject, fields: map[string]*tnode{"w": x}}
					}
					refSet(model, segs, val, nil)
					c.Writes = append(c.Writes, w)
					continue
				}
			}
		}
		if unset {
			refUnset(model, segs)
		} else {
			switch pick(t, "valk", 60, 25, 15) {
			case 0:
				w.Val = GenLeaf(t, cfg)
			case 1:
				w.Val = GenValue(t, cfg, 2)
			case 2:
				w.Val = GenValue(t, cfg, 2)
				w.Native = true
				if drawBool(t, "nativedup") {
					// append a copy of the first non-empty container child (same Go instance in the native value)
					switch w.Val.K {
					case KList:
						for _, e := range w.Val.L {
							if (e.K == KList && len(e.L) > 0) || (e.K == KObject && len(e.O) > 0) {
								w.Val.L = append(append([]V{}, w.Val.L...), e.Clone())
								w.NativeDup = true
								break
							}
						}
					case KObject:
						if _, taken := w.Val.Field("dup~"); !taken {
							for _, p := range w.Val.O {
								if (p.V.K == KList && len(p.V.L) > 0) || (p.V.K == KObject && len(p.V.O) > 0) {
									w.Val.O = append(append([]Pair{}, w.Val.O...), Pair{"dup~", p.V.Clone()})
									w.NativeDup = true
									break
								}
							}
						}
					}
				}
			}
			refSet(model, segs, tFromV(w.Val), nil)
		}
		c.Writes = append(c.Writes, w)
	}
	return c
}

func setTF(c any, p string, v any) any {
	switch x := c.(type) {
	case at.List:
		return x.SetTF(p, v)
	case at.Object:
		return x.SetTF(p, v)
	}
	return nil
}

func unsetTF(c any, p string) any {
	switch x := c.(type) {
	case at.List:
		return x.UnsetTF(p)
	case at.Object:
		return x.UnsetTF(p)
	}
	return nil
}

// bindFresh binds every container of a freshly built implementation value to the model node.
func bindBuilt(n *tnode, x any) {
	switch n.k {
	case KList:
		n.impl = x
		l := x.(at.List)
		for i, e := range n.elems {
			bindBuilt(e, l.Get(i))
		}
	case KObject:
		n.impl = x
		o := x.(at.Object)
		for k, e := range n.fields {
			bindBuilt(e, o.Get(k))
		}
	}
}

func collectIDs(n *tnode, seen map[any]bool) {
	if n.impl != nil {
		seen[n.impl] = true
	}
	for _, e := range n.elems {
		collectIDs(e, seen)
	}
	for _, e := range n.fields {
		collectIDs(e, seen)
	}
}

func CheckC11(c *C11Case, st *Stats) error {
	if c.Root.K != KList && c.Root.K != KObject {
		return nil
	}
	if c.Latin1 {
		cc := *c
		ok := true
		cc.Root, ok = c.Root.Latin1Keys()
		cc.Writes = append([]TFWrite{}, c.Writes...)
		invalid := false
		for i := range cc.Writes {
			var ok2 bool
			cc.Writes[i].Path = latin1(cc.Writes[i].Path)
			cc.Writes[i].Ref = latin1(cc.Writes[i].Ref)
			cc.Writes[i].Val, ok2 = cc.Writes[i].Val.Latin1Keys()
			ok = ok && ok2
			invalid = invalid || !utf8.ValidString(cc.Writes[i].Path)
		}
		if ok {
			c = &cc
			if invalid {
				st.Count("write_path_with_invalid_utf8_key")
			}
		}
	}
	root := BuildVariant(c.Root, c.Build)
	model := tFromV(c.Root)
	bindBuilt(model, root)
	everSeen := map[any]bool{}
	collectIDs(model, everSeen)
	nontrivial := false
	for wi, w := range c.Writes {
		if w.Reverse {
			x := model
			if w.Path != "" {
				rs, ok := parseTF(w.Path)
				if !ok {
					continue
				}
				x = nodeAt(model, rs)
			}
			l, isList := any(nil), false
			if x != nil && x.k == KList && x.impl != nil {
				l, isList = x.impl.(at.List)
			}
			if !isList {
				st.Count("skipped.reverse_not_applicable")
				continue
			}
			if pv, panicked := catch(func() { l.(at.List).Reverse() }); panicked {
				return errf("write %d: Reverse() of the list at %q panicked: %v", wi, w.Path, pv)
			}
			for a, b := 0, len(x.elems)-1; a < b; a, b = a+1, b-1 {
				x.elems[a], x.elems[b] = x.elems[b], x.elems[a]
			}
			st.Count("reverse_between_writes")
			if err := cmpT(model, root, map[any]bool{}, ""); err != nil {
				return errf("write %d: after Reverse() of the list at %q: %v", wi, w.Path, err)
			}
			continue
		}
		segs, ok := parseTF(w.Path)
		if !ok {
			continue
		}
		wellFormed := (segs[0].sigil == '.') == (c.Root.K == KObject)
		for _, s := range segs {
			if s.sigil == '#' {
				if _, canon := canonicalIndex(s.text); !canon {
					wellFormed = false
				}
			}
		}
		if !wellFormed {
			st.Count("skipped.not_well_formed")
			continue
		}
		if w.Unset {
			snapBefore := model.toV()
			resolved := refUnset(model, segs)
			var ret any
			pv, panicked := catch(func() { ret = unsetTF(root, w.Path) })
			if resolved {
				st.Count("unset.resolved")
				if len(segs) >= 2 {
					nontrivial = true
				}
				if panicked {
					return errf("write %d: UnsetTF(%q) panicked (%v) on a resolvable path\n tree before: %s", wi, w.Path, pv, snapBefore.Show())
				}
				if ret != root {
					return errf("write %d: UnsetTF(%q) did not return the container it was called on", wi, w.Path)
				}
			} else {
				st.Count("unset.unresolved")
				if panicked {
					st.Count("unset.unresolved.panicked")
				}
			}
			seen := map[any]bool{}
			if err := cmpT(model, root, seen, ""); err != nil {
				return errf("write %d: after UnsetTF(%q) (resolvable=%v): %v\n tree before: %s", wi, w.Path, resolved, err, snapBefore.Show())
			}
			continue
		}
		// SetTF
		var arg any
		valNode := tFromV(w.Val)
		if w.Ref != "" {
			rsegs, ok := parseTF(w.Ref)
			x := (*tnode)(nil)
			if ok {
				x = nodeAt(model, rsegs)
			}
			if x == nil || x.impl == nil || (x.k != KList && x.k != KObject) || wouldCycle(model, segs, x) {
				st.Count("skipped.ref_not_applicable")
				continue
			}
			valNode, arg = x, x.impl
			switch w.Wrap {
			case 1:
				arg = at.NewList(x.impl)
				valNode = &tnode{k: KList, elems: []*tnode{x}, impl: arg}
			case 2:
				arg = at.NewObject("w", x.impl)
				valNode = &tnode{k: KObject, fields: map[string]*tnode{"w": x}, impl: arg}
			}
			everSeen[arg] = true
			st.Count(fmt.Sprintf("value.existing_container.wrap%d", w.Wrap))
		} else if w.Native {
			arg = Native(w.Val)
			if w.NativeDup {
				arg = aliasNativeDup(arg, w.Val)
				st.Count("value.native_with_one_instance_twice")
			}
			st.Count("value.native")
		} else {
			arg = Build(w.Val)
			bindBuilt(valNode, arg)
			collectIDs(valNode, everSeen)
			if w.Val.K == KList || w.Val.K == KObject {
				st.Count("value.container")
			} else {
				st.Count("value.scalar")
			}
		}
		snapBefore := model.toV()
		preCreated := countUnbound(model)
		refSet(model, segs, valNode, st)
		if countUnbound(model)-countUnboundIn(valNode) > preCreated || len(segs) >= 2 {
			nontrivial = true
		}
		var ret any
		pv, panicked := catch(func() { ret = setTF(root, w.Path, arg) })
		if panicked {
			return errf("write %d: SetTF(%q, %s) panicked: %v\n tree before: %s", wi, w.Path, w.Val.Show(), pv, snapBefore.Show())
		}
		if ret != root {
			return errf("write %d: SetTF(%q) did not return the container it was called on", wi, w.Path)
		}
		// every container the library creates must be new: compare against all identities seen so far
		seen := map[any]bool{}
		for id := range everSeen {
			seen[id] = true
		}
		// containers that are (still) in the tree are legitimately "seen": cmpT distinguishes by impl binding
		if err := cmpTWithHistory(model, root, seen); err != nil {
			return errf("write %d: after SetTF(%q, %s): %v\n tree before: %s", wi, w.Path, w.Val.Show(), err, snapBefore.Show())
		}
		collectIDs(model, everSeen)
		// GetTF(p) yields v
		var got any
		if pv, panicked := catch(func() { got = getTF(root, w.Path) }); panicked {
			return errf("write %d: GetTF(%q) panicked right after SetTF: %v", wi, w.Path, pv)
		}
		if w.Ref != "" || (!w.Native && (w.Val.K == KList || w.Val.K == KObject)) {
			if got != arg {
				return errf("write %d: GetTF(%q) does not return the identical container that was written", wi, w.Path)
			}
		} else {
			gv, err := Snap(got)
			if err != nil {
				return err
			}
			if !EqVBits(gv, w.Val) {
				return errf("write %d: GetTF(%q) = %s after writing %s", wi, w.Path, gv.Show(), w.Val.Show())
			}
		}
	}
	if nontrivial {
		st.MarkNonTrivial()
	}
	return nil
}

func countUnbound(n *tnode) int {
	c := 0
	if (n.k == KList || n.k == KObject) && n.impl == nil {
		c++
	}
	for _, e := range n.elems {
		c += countUnbound(e)
	}
	for _, e := range n.fields {
		c += countUnbound(e)
	}
	return c
}

func countUnboundIn(n *tnode) int { return countUnbound(n) }

// cmpTWithHistory: bound nodes must be identical; unbound nodes must be
// containers never seen before (history = every identity observed so far).
func cmpTWithHistory(model *tnode, root any, history map[any]bool) error {
	return cmpTH(model, root, history, "")
}

func cmpTH(n *tnode, x any, history map[any]bool, path string) error {
	if (n.k == KList || n.k == KObject) && n.impl == nil {
		if history[x] {
			return errf("%s: expected a newly created container, found one that existed before the write", path)
		}
	}
	switch n.k {
	case KList:
		l, ok := x.(at.List)
		if !ok {
			return errf("%s: expected a list, found %s", path, showAny(x))
		}
		if n.impl != nil && n.impl != x {
			return errf("%s: the list at this position is not the identical container that was there before (an existing intermediate of the right kind must be reused, not copied)", path)
		}
		n.impl = x
		history[x] = true
		if l.Count() != len(n.elems) {
			return errf("%s: list has %d elements, reference model %d (%s vs %s)", path, l.Count(), len(n.elems), clip(l.String(), 150), n.toV().Show())
		}
		for i, e := range n.elems {
			if err := cmpTH(e, l.Get(i), history, path+"#"+strconv.Itoa(i)); err != nil {
				return err
			}
		}
	case KObject:
		o, ok := x.(at.Object)
		if !ok {
			return errf("%s: expected an object, found %s", path, showAny(x))
		}
		if n.impl != nil && n.impl != x {
			return errf("%s: the object at this position is not the identical container that was there before (an existing intermediate of the right kind must be reused, not copied)", path)
		}
		n.impl = x
		history[x] = true
		if o.Count() != len(n.fields) {
			return errf("%s: object has %d fields, reference model %d (%s vs %s)", path, o.Count(), len(n.fields), clip(o.String(), 150), n.toV().Show())
		}
		for k, e := range n.fields {
			if !o.KeyExists(k) {
				return errf("%s: key %+q missing (object %s, reference %s)", path, k, clip(o.String(), 150), n.toV().Show())
			}
			if err := cmpTH(e, o.Get(k), history, path+"."+k); err != nil {
				return err
			}
		}
	default:
		got, err := Snap(x)
		if err != nil {
			return err
		}
		if !EqVBits(got, n.sc) {
			return errf("%s: value is %s, reference model has %s", path, got.Show(), n.sc.Show())
		}
	}
	return nil
}

func init() {
	Register("C11",
		"trees with sigil-free keys (incl. keys with or ending in a backslash and keys with leading or trailing white space next to their trimmed twins; in one case of five keys and paths are re-encoded to bytes that are not valid UTF-8; in one tree of four one key in five is an unaddressable distractor - empty, or containing a sigil - that every write must leave alone; long lists, chains up to 70 levels with paths of up to 80 segments, drawn construction routes so that element wrappers may be shared between positions) x sequences of 1-5 tree-form writes. SetTF paths are well-formed random walks that follow existing children or deliberately leave them (existing / new key; index < n, = n, n+1..n+4; next sigil matching or not matching the child's kind), so every cell of (container kind) x (next segment . / # / leaf) x (missing, right kind, wrong kind: scalar, nil, other container) occurs; values are scalars, fresh containers, native Go maps/slices or - one write in six - a container that is already in the tree (moved or linked: the same instance at two places) or a new container holding it, also written over its own slot. Oracle: a reference writer over a model tree with identities (reuse right-kind intermediates, replace others by a new container of the kind the next segment needs, pad lists with nil): SetTF must not panic, returns the root, GetTF(p) yields v (identical container), and the whole tree equals the model with every reused container identical to before and every created container never seen before. UnsetTF: resolvable => exactly that entry removed (list tail shifts); otherwise tree unchanged whether or not it panics. Non-trivial = a write with >= 2 segments or one that creates/replaces an intermediate or pads a list. Distinct = distinct FNV-64a hash of the case JSON. Index gaps behind the end also 63-65, 127-129, 192, 256, 1024 (one in six of the beyond-the-end indices). Between two writes a list on the path of the last SetTF may be reversed through its own handle (one in four), and the next write then goes along exactly the same path in half of these cases.",
		GenC11, CheckC11)
}
