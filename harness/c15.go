package harness

import (
	"fmt"
	"math"
	"runtime"
	"sort"
	"strings"
	"sync"
	"sync/atomic"
	"time"

	at "github.com/DanielSvub/anytype"
	"pgregory.net/rapid"
)

// C15: async variants equal their sequential counterparts under every schedule.
// The harness owns what the API exposes of the schedule (the order in which
// callbacks are allowed to finish, per-callback yields, GOMAXPROCS); the race
// detector (the binary is built with -race) judges the library's own accesses.

type C15Case struct {
	Sub     string      `json:"sub"` // "foreach", "mapasync", "readers"
	Object  bool        `json:"object"`
	N       int         `json:"n"`
	Order   []int       `json:"order,omitempty"`  // raw release order (foreach)
	Yields  []int       `json:"yields,omitempty"` // per-element Gosched counts (mapasync)
	Procs   int         `json:"procs"`
	History ListHistory `json:"history"`
	Readers [][]string  `json:"readers,omitempty"` // per goroutine: list of read-only operations
	Mixed   bool        `json:"mixed,omitempty"`   // element kinds: ints only or mixed incl. nested containers
	Nested  bool        `json:"nested,omitempty"`  // mapasync: the callback itself runs MapAsync / ForEachAsync on nested containers
	// Odd > 0 (mapasync): for every fourth element, starting at Odd mod 4, the pure function returns an
	// unusual but supported value (nil, an infinity, zero values, a string that is not valid UTF-8, sized
	// numbers, native slices and maps) that Map and MapAsync must store identically
	Odd int `json:"odd,omitempty"`
	// FloatFn (mapasync): what the pure function does with a float: 0 x+1, 1 -x, 2 |x|, 3 x itself,
	// 4 x*0 (a zero with the sign of x); ints: 0-2 x*3, 3 x itself, 4 x*0
	FloatFn int `json:"floatfn,omitempty"`
}

func oddResult(slot int) any {
	switch slot % 12 {
	case 0:
		return nil
	case 1:
		return "\xffill-formed\xc3"
	case 2:
		return math.Inf(1)
	case 3:
		return int8(slot % 100)
	case 4:
		return float32(1.5)
	case 5:
		return []any{slot, "x"}
	case 6:
		return map[string]any{"k": slot}
	case 7:
		return []string{"a", ""}
	case 8:
		return ""
	case 9:
		return 0
	case 10:
		return false
	}
	return math.Inf(-1)
}

var listReadOps = []string{"Get", "GetInt", "TypeOf", "Count", "String", "FormatString", "Clone", "Equals", "SubList", "Concat", "ConcatSelf", "Filter", "FilterInts",
	"Map", "MapValues", "MapInts", "IntSlice", "StringSlice", "ListSlice", "ObjectSlice", "Slice", "NativeSlice", "Contains", "IndexOf", "GetTF", "TypeOfTF",
	"Sum", "Min", "Max", "IntSum", "IntMax", "Avg", "Reduce", "ReduceInts", "AllInts", "AllNumeric", "ForEach", "ForEachInt", "ForEachAsync", "MapAsync", "Empty",
	"AllObjects", "AllLists", "AllStrings", "AllBools", "AllFloats"}

var objectReadOps = []string{"Get", "TypeOf", "KeyExists", "Count", "String", "FormatString", "Clone", "Equals", "Merge", "MergeSelf", "Pluck", "Keys", "Values", "Dict",
	"NativeDict", "Contains", "KeyOf", "Map", "MapValues", "MapInts", "ForEach", "ForEachInt", "ForEachAsync", "MapAsync", "GetTF", "TypeOfTF", "Empty"}

func GenC15(t *rapid.T) *C15Case {
	c := &C15Case{Object: oneIn(t, 3, "obj"), Procs: []int{1, 2, 4, 16}[drawIdx(t, 4, "procs")], Mixed: drawBool(t, "mixed")}
	switch pick(t, "sub", 40, 25, 35) {
	case 0:
		c.Sub = "foreach"
		c.N = []int{0, 1, 2, 3, 4, 5, 8, 13, 20, 40, 64, 65, 100, 130, 257, 1025}[drawIdx(t, 16, "n")]
		for i := 0; i < c.N; i++ {
			c.Order = append(c.Order, genRaw(t))
		}
	case 1:
		c.Sub = "mapasync"
		c.Nested = drawBool(t, "nestedasync")
		if oneIn(t, 3, "oddresults") {
			c.Odd = 1 + drawInt(t, 0, 3, "oddat")
		}
		c.FloatFn = drawInt(t, 0, 4, "floatfn")
		c.N = []int{0, 1, 2, 3, 5, 8, 16, 40, 64, 65, 129, 257, 1025, 2049}[drawIdx(t, 14, "n")]
		for i := 0; i < c.N; i++ {
			c.Yields = append(c.Yields, drawInt(t, 0, 3, "y"))
		}
	case 2:
		c.Sub = "readers"
		c.N = []int{0, 1, 3, 6, 12}[drawIdx(t, 5, "n")]
		c.History = genHistory(t, false)
		k := drawInt(t, 2, 8, "goroutines")
		ops := listReadOps
		if c.Object {
			ops = objectReadOps
		}
		for g := 0; g < k; g++ {
			m := drawInt(t, 1, 6, "nops")
			var l []string
			for j := 0; j < m; j++ {
				l = append(l, ops[drawIdx(t, len(ops), "op")])
			}
			c.Readers = append(c.Readers, l)
		}
	}
	return c
}

// c15Elem: element i of the container under test.
func c15Elem(i int, mixed bool) any {
	if !mixed {
		return 1000 + i
	}
	switch i % 6 {
	case 0:
		return 1000 + i
	case 1:
		return fmt.Sprintf("s%d", i)
	case 2:
		switch i % 18 {
		case 2:
			return 0.0
		case 8:
			return math.Copysign(0, -1)
		}
		return float64(i) + 0.25
	case 3:
		return at.NewList(i, "x")
	case 4:
		return at.NewObject("pos", i)
	}
	return i%4 == 1
}

func c15Key(i int) string { return fmt.Sprintf("k%02d", i) }

type asyncCall struct {
	slot int
	val  any
}

// runGated runs the gated ForEachAsync sub-check under a watchdog: the controller opens every gate
// after at most 20 s (start watchdog) plus 5 ms per element, so a ForEachAsync that has still not
// returned after 45 s waits for something that will never happen (e.g. a completion signal nobody
// sends on an empty container).
func runGated(c *C15Case, st *Stats) error {
	done := make(chan error, 1)
	go func() {
		defer func() {
			if r := recover(); r != nil {
				done <- errf("ForEachAsync panicked (n=%d, object=%v): %v", c.N, c.Object, r)
			}
		}()
		done <- runGatedInner(c, st)
	}()
	select {
	case err := <-done:
		return err
	case <-time.After(45 * time.Second):
		return hangf("ForEachAsync (n=%d, object=%v, GOMAXPROCS %d) did not return within 45 s although every callback had been released", c.N, c.Object, c.Procs)
	}
}

// runGatedInner runs ForEachAsync with per-callback gates released in the drawn order.
func runGatedInner(c *C15Case, st *Stats) error {
	n := c.N
	var l at.List
	var o at.Object
	vals := make([]any, n)
	for i := range vals {
		vals[i] = c15Elem(i, c.Mixed)
	}
	if c.Object {
		o = at.NewObject()
		for i := range vals {
			o.Set(c15Key(i), vals[i])
		}
	} else {
		l = at.NewList(vals...)
	}
	// release order: a permutation of 0..n-1 derived from the raw draws
	order := make([]int, n)
	for i := range order {
		order[i] = i
	}
	for i := n - 1; i > 0; i-- {
		j := 0
		if i < len(c.Order) {
			j = c.Order[i] % (i + 1)
		}
		order[i], order[j] = order[j], order[i]
	}
	gates := make([]chan struct{}, n)
	arrived := make([]chan struct{}, n)
	for i := range gates {
		gates[i] = make(chan struct{})
		arrived[i] = make(chan struct{}, 4)
	}
	var mu sync.Mutex
	var calls []asyncCall
	var completed int32
	var stray int32
	record := func(slot int, v any) {
		if slot < 0 || slot >= n {
			atomic.AddInt32(&stray, 1)
			return
		}
		select {
		case arrived[slot] <- struct{}{}:
		default:
		}
		<-gates[slot]
		mu.Lock()
		calls = append(calls, asyncCall{slot, v})
		mu.Unlock()
		atomic.AddInt32(&completed, 1)
	}
	controllerDone := make(chan struct{})
	var lostControl int32
	var notStarted int32 = -1
	go func() {
		defer close(controllerDone)
		// A callback whose gate is about to be opened must have been started: ForEachAsync runs the
		// calls independently of each other, so every call starts no matter how long the others take.
		// If one has not started after startWatchdog although the process is otherwise idle (all
		// earlier callbacks are parked on their gates), the calls are not independent (for example a
		// bounded worker pool): with this release order ForEachAsync can never complete. Like the C04
		// watchdog this clock can only turn a hang into a report; a goroutine of a correct
		// implementation is runnable from the moment ForEachAsync spawned it.
		const startWatchdog = 20 * time.Second
		wait := startWatchdog
		for _, s := range order {
			select {
			case <-arrived[s]:
			case <-time.After(wait):
				if wait == startWatchdog {
					atomic.StoreInt32(&notStarted, int32(s))
				}
				atomic.AddInt32(&lostControl, 1)
				wait = 5 * time.Millisecond // drain quickly; the verdict is already decided
			}
			close(gates[s])
		}
	}()
	var ret any
	if c.Object {
		ret = o.ForEachAsync(func(k string, v any) {
			slot := -1
			fmt.Sscanf(k, "k%d", &slot)
			if slot >= 0 && slot < n && c15Key(slot) != k {
				slot = -1
			}
			record(slot, v)
		})
	} else {
		ret = l.ForEachAsync(func(i int, v any) { record(i, v) })
	}
	atReturn := int(atomic.LoadInt32(&completed))
	// let everything drain before judging, so that no goroutine outlives the case
	<-controllerDone
	deadline := time.Now().Add(3 * time.Second)
	for int(atomic.LoadInt32(&completed)) < n && time.Now().Before(deadline) {
		time.Sleep(time.Millisecond)
	}
	if ns := atomic.LoadInt32(&notStarted); ns >= 0 {
		return hangf("ForEachAsync had not started the call for element/field %d twenty seconds after it was invoked, while the harness was holding back the other callbacks (release order %v, n=%d, object=%v, GOMAXPROCS %d): the calls are not run independently, so ForEachAsync cannot complete when one callback is delayed until a later one has started", ns, order, n, c.Object, c.Procs)
	}
	if atReturn != n {
		return errf("ForEachAsync returned while only %d of %d callbacks had returned (object=%v, release order %v, GOMAXPROCS %d)", atReturn, n, c.Object, order, c.Procs)
	}
	if s := atomic.LoadInt32(&stray); s != 0 {
		return errf("ForEachAsync passed %d index/key values that do not exist in the container", s)
	}
	mu.Lock()
	defer mu.Unlock()
	if len(calls) != n {
		return errf("ForEachAsync made %d calls for %d elements", len(calls), n)
	}
	seen := make([]int, n)
	for _, cl := range calls {
		seen[cl.slot]++
		if !ifaceEq(cl.val, vals[cl.slot]) {
			return errf("ForEachAsync passed value %s with index/key %d, the container holds %s there", showAny(cl.val), cl.slot, showAny(vals[cl.slot]))
		}
	}
	for i, k := range seen {
		if k != 1 {
			return errf("ForEachAsync called the function %d times for element %d (n=%d, object=%v)", k, i, n, c.Object)
		}
	}
	if c.Object && ret != any(o) || !c.Object && ret != any(l) {
		return errf("ForEachAsync did not return its receiver")
	}
	if atomic.LoadInt32(&lostControl) > 0 {
		st.Count("foreach.lost_ordering_control")
	}
	inOrder := true
	for i, s := range order {
		if i != s {
			inOrder = false
		}
	}
	if n >= 2 && (!inOrder || c.Procs > 1) {
		st.MarkNonTrivial()
	}
	return nil
}

// runMapAsync runs the comparison under a watchdog: a MapAsync whose callbacks use the async
// variants of nested containers must still return (20 s against microseconds of work; like the
// C04 watchdog the clock can only turn a hang into a report).
func runMapAsync(c *C15Case, st *Stats) error {
	done := make(chan error, 1)
	go func() {
		defer func() {
			if r := recover(); r != nil {
				done <- errf("MapAsync / Map panicked (n=%d, object=%v): %v", c.N, c.Object, r)
			}
		}()
		done <- runMapAsyncInner(c, st)
	}()
	select {
	case err := <-done:
		return err
	case <-time.After(20 * time.Second):
		return hangf("MapAsync (n=%d, object=%v, nested async callbacks=%v, GOMAXPROCS %d) did not return within 20 s", c.N, c.Object, c.Nested, c.Procs)
	}
}

func runMapAsyncInner(c *C15Case, st *Stats) error {
	n := c.N
	yields := func(i int) int {
		if i >= 0 && i < len(c.Yields) {
			return c.Yields[i]
		}
		return 0
	}
	tagv := func(slot int, v any) any {
		for y := 0; y < yields(slot); y++ {
			runtime.Gosched()
		}
		if c.Odd > 0 && slot >= 0 && slot%4 == (c.Odd-1)%4 {
			return oddResult(slot/4 + c.Odd)
		}
		switch x := v.(type) {
		case int:
			switch c.FloatFn % 5 {
			case 3:
				return x
			case 4:
				return x * 0
			}
			return x * 3
		case string:
			return x + "!"
		case float64:
			switch c.FloatFn % 5 {
			case 1:
				return -x
			case 2:
				return math.Abs(x)
			case 3:
				return x
			case 4:
				return x * 0
			}
			return x + 1
		case at.List:
			if c.Nested {
				// the callback itself uses the async variants of the nested container
				var seen int64
				x.ForEachAsync(func(j int, y any) { atomic.AddInt64(&seen, int64(j+1)) })
				return x.MapAsync(func(j int, y any) any { return fmt.Sprintf("%d/%d:%s", seen, j, tagOf(y)) })
			}
			return x // shared nested containers are allowed
		case at.Object:
			if c.Nested {
				return x.MapAsync(func(k string, y any) any { return k + "=" + tagOf(y) })
			}
		}
		return fmt.Sprintf("%d:%s", slot, tagOf(v))
	}
	if c.Object {
		o := at.NewObject()
		for i := 0; i < n; i++ {
			o.Set(c15Key(i), c15Elem(i, c.Mixed))
		}
		f := func(k string, v any) any {
			slot := -1
			fmt.Sscanf(k, "k%d", &slot)
			return tagv(slot, v)
		}
		want := o.Map(f)
		got := o.MapAsync(f)
		ws, err1 := TakeIdentSnap(want)
		gs, err2 := TakeIdentSnap(got)
		if err1 != nil || err2 != nil {
			return errf("MapAsync/Map result inconsistent: %v %v", err1, err2)
		}
		if !EqVBits(ws.Tree, gs.Tree) {
			return errf("object MapAsync differs from Map: %s vs %s", gs.Tree.Show(), ws.Tree.Show())
		}
		if !got.Equals(want) || !want.Equals(got) {
			return errf("object MapAsync result does not Equal the Map result: %s vs %s", gs.Tree.Show(), ws.Tree.Show())
		}
		if any(got) == any(o) {
			return errf("MapAsync returned its receiver")
		}
		if err := sameObservations(c, func(op string) string { return readOpObject(want, o, op, 5) }, func(op string) string { return readOpObject(got, o, op, 5) }, objectReadOps); err != nil {
			return err
		}
	} else {
		l := at.NewList()
		for i := 0; i < n; i++ {
			l.Add(c15Elem(i, c.Mixed))
		}
		f := func(i int, v any) any { return tagv(i, v) }
		want := l.Map(f)
		got := l.MapAsync(f)
		if got.Count() != want.Count() {
			return errf("list MapAsync has %d elements, Map %d", got.Count(), want.Count())
		}
		for i := 0; i < want.Count(); i++ {
			same := ifaceEq(got.Get(i), want.Get(i))
			if gf, ok := got.Get(i).(float64); ok && same {
				same = math.Float64bits(gf) == math.Float64bits(want.Get(i).(float64)) // the sign of a zero counts
			}
			if !same && (c.Nested || c.Odd > 0) {
				// containers created by the callback are distinct instances in the two results: compare content
				same = fpValue(got.Get(i)) == fpValue(want.Get(i))
			}
			if !same || got.TypeOf(i) != want.TypeOf(i) {
				return errf("list MapAsync[%d] = %s, Map gives %s", i, showAny(got.Get(i)), showAny(want.Get(i)))
			}
		}
		if !got.Equals(want) || !want.Equals(got) {
			return errf("list MapAsync result does not Equal the Map result: %s vs %s", clip(got.String(), 200), clip(want.String(), 200))
		}
		if err := sameObservations(c, func(op string) string { return readOpList(want, l, op, 5) }, func(op string) string { return readOpList(got, l, op, 5) }, listReadOps); err != nil {
			return err
		}
	}
	if n >= 2 && c.Procs > 1 {
		st.MarkNonTrivial()
	}
	return nil
}

// sameObservations: "MapAsync returns exactly what Map returns" - no read-only operation may tell the two
// results apart (every operation of the concurrent-readers sub-check is applied to both; big results
// only get the operations that answer from summaries a container may keep: predicates, folds, typed views).
func sameObservations(c *C15Case, onWant, onGot func(op string) string, ops []string) error {
	for _, op := range ops {
		if c.N > 130 {
			switch op {
			case "Count", "Empty", "TypeOf", "AllInts", "AllNumeric", "AllObjects", "AllLists", "AllStrings", "AllBools", "AllFloats",
				"Sum", "IntSum", "Min", "Max", "IntSlice", "FilterInts", "ForEachInt", "Contains", "IndexOf", "KeyOf", "KeyExists", "Keys":
			default:
				continue
			}
		}
		var w, g string
		pw, wp := catch(func() { w = onWant(op) })
		pg, gp := catch(func() { g = onGot(op) })
		if wp != gp {
			return errf("%s on the Map result and on the MapAsync result: panics %v / %v (%v %v)", op, wp, gp, pw, pg)
		}
		if strings.Contains(w, "invalid-json:") && strings.Contains(g, "invalid-json:") {
			continue // text with non-finite floats is not JSON: the raw text of an object has no defined order
		}
		if !wp && w != g {
			return errf("%s tells the MapAsync result from the Map result: %s vs %s", op, clip(g, 200), clip(w, 200))
		}
	}
	return nil
}

// fingerprint is an order-insensitive description of a result.
func fingerprint(op string, x any) string {
	switch v := x.(type) {
	case at.List:
		if op == "Keys" || op == "Values" {
			tags := make([]string, v.Count())
			for i := range tags {
				tags[i] = fpValue(v.Get(i))
			}
			sort.Strings(tags)
			return "multiset:" + strings.Join(tags, ",")
		}
		return fpValue(v)
	case at.Object:
		return fpValue(v)
	}
	var foreign []string
	if x == nil {
		return "nil"
	}
	switch x.(type) {
	case bool, int, float64, string, at.Type:
		return fmt.Sprintf("%T:%v", x, x)
	}
	return "native:" + RenderJSON(normNative(x, &foreign, "$")) + strings.Join(foreign, ";")
}

func fpValue(x any) string {
	v, err := Snap(x)
	if err != nil {
		return "inconsistent:" + err.Error()
	}
	return v.K.String() + ":" + RenderJSON(v)
}

// readOpList executes one non-mutating operation and fingerprints its result.
func readOpList(l, other at.List, op string, salt int) string {
	n := l.Count()
	idx := 0
	if n > 0 {
		idx = salt % n
	}
	var r any
	switch op {
	case "Get":
		if n > 0 {
			r = fpValue(l.Get(idx))
		}
	case "GetInt":
		if n > 0 && l.TypeOf(idx) == at.TypeInt {
			r = l.GetInt(idx)
		}
	case "TypeOf":
		r = l.TypeOf(idx)
	case "Count":
		r = l.Count()
	case "Empty":
		r = l.Empty()
	case "String":
		r = fingerprintText(l.String())
	case "FormatString":
		r = fingerprintText(l.FormatString(2))
	case "Clone":
		r = l.Clone()
	case "Equals":
		r = l.Equals(other)
	case "SubList":
		r = l.SubList(idx, 0)
	case "Concat":
		r = l.Concat(other)
	case "ConcatSelf":
		r = l.Concat(l)
	case "Filter":
		r = l.Filter(func(x any) bool { _, isInt := x.(int); return isInt })
	case "FilterInts":
		r = l.FilterInts(func(x int) bool { return x%2 == 0 })
	case "Map":
		r = l.Map(func(i int, x any) any { return tagOf(x) })
	case "MapValues":
		r = l.MapValues(func(x any) any { return tagOf(x) })
	case "MapInts":
		r = l.MapInts(func(x int) any { return x + 1 })
	case "IntSlice":
		r = l.IntSlice()
	case "StringSlice":
		r = l.StringSlice()
	case "ListSlice":
		r = len(l.ListSlice())
	case "ObjectSlice":
		r = len(l.ObjectSlice())
	case "Slice":
		r = len(l.Slice())
	case "NativeSlice":
		r = l.NativeSlice()
	case "Contains":
		r = l.Contains(1000 + idx)
	case "IndexOf":
		r = l.IndexOf(1000 + idx)
	case "GetTF":
		if n > 0 {
			r = fpValue(l.GetTF(fmt.Sprintf("#%d", idx)))
		}
	case "TypeOfTF":
		// a spelling of the index that varies from call to call (leading zeros in hex notation): the
		// result must be the same concurrently and sequentially, whatever the library makes of it
		r = l.TypeOfTF(fmt.Sprintf("#0x%0*x", 1+salt%23, idx))
	case "Sum":
		r = l.Sum()
	case "Min":
		r = l.IntMin()
	case "Max":
		r = l.IntMax()
	case "IntSum":
		r = l.IntSum()
	case "IntMax":
		r = l.IntMax()
	case "Avg":
		if n > 0 {
			r = l.IntSum() / n
		}
	case "Reduce":
		r = l.Reduce(0, func(acc any, x any) any { return acc.(int) + len(tagOf(x)) })
	case "ReduceInts":
		r = l.ReduceInts(0, func(acc, x int) int { return acc*31 + x })
	case "AllInts":
		r = l.AllInts()
	case "AllNumeric":
		r = l.AllNumeric()
	case "AllObjects":
		r = l.AllObjects()
	case "AllLists":
		r = l.AllLists()
	case "AllStrings":
		r = l.AllStrings()
	case "AllBools":
		r = l.AllBools()
	case "AllFloats":
		r = l.AllFloats()
	case "ForEach":
		c := 0
		l.ForEach(func(i int, x any) { c += i + len(tagOf(x)) })
		r = c
	case "ForEachInt":
		c := 0
		l.ForEachInt(func(x int) { c += x })
		r = c
	case "ForEachAsync":
		var c int64
		l.ForEachAsync(func(i int, x any) { atomic.AddInt64(&c, int64(i+len(tagOf(x)))) })
		r = int(c)
	case "MapAsync":
		r = l.MapAsync(func(i int, x any) any { return tagOf(x) })
	}
	return fingerprint(op, r)
}

func fingerprintText(s string) string {
	// String() of nested objects has random key order: compare as parsed data
	j, _, err := ScanJSON(s)
	if err != nil {
		return "invalid-json:" + s
	}
	v, err := JVToV(j)
	if err != nil {
		return "bad-number:" + s
	}
	sn := sortV(v)
	return "text:" + RenderJSON(sn)
}

func sortV(v V) V {
	out := v
	switch v.K {
	case KList:
		out.L = make([]V, len(v.L))
		for i, e := range v.L {
			out.L[i] = sortV(e)
		}
	case KObject:
		out.O = make([]Pair, len(v.O))
		for i, p := range v.O {
			out.O[i] = Pair{p.K, sortV(p.V)}
		}
		sort.Slice(out.O, func(i, j int) bool { return out.O[i].K < out.O[j].K })
	}
	return out
}

func readOpObject(o, other at.Object, op string, salt int) string {
	keys := sortedKeys(o)
	key := "k00"
	if len(keys) > 0 {
		key = keys[salt%len(keys)]
	}
	var r any
	switch op {
	case "Get":
		if o.KeyExists(key) {
			r = fpValue(o.Get(key))
		}
	case "TypeOf":
		r = o.TypeOf(key)
	case "KeyExists":
		r = o.KeyExists(key)
	case "Count":
		r = o.Count()
	case "Empty":
		r = o.Empty()
	case "String":
		r = fingerprintText(o.String())
	case "FormatString":
		r = fingerprintText(o.FormatString(2))
	case "Clone":
		r = o.Clone()
	case "Equals":
		r = o.Equals(other)
	case "Merge":
		r = o.Merge(other)
	case "MergeSelf":
		r = o.Merge(o)
	case "Pluck":
		if o.KeyExists(key) {
			r = o.Pluck(key)
		}
	case "Keys":
		r = o.Keys()
	case "Values":
		r = o.Values()
	case "Dict":
		r = len(o.Dict())
	case "NativeDict":
		r = o.NativeDict()
	case "Contains":
		r = o.Contains(1000 + salt%7)
	case "KeyOf":
		if o.Contains(1000) {
			r = o.KeyOf(1000)
		}
	case "Map":
		r = o.Map(func(k string, x any) any { return k + tagOf(x) })
	case "MapValues":
		r = o.MapValues(func(x any) any { return tagOf(x) })
	case "MapInts":
		r = o.MapInts(func(x int) any { return x + 1 })
	case "ForEach":
		c := 0
		o.ForEach(func(k string, x any) { c += len(k) + len(tagOf(x)) })
		r = c
	case "ForEachInt":
		c := 0
		o.ForEachInt(func(x int) { c += x })
		r = c
	case "ForEachAsync":
		var c int64
		o.ForEachAsync(func(k string, x any) { atomic.AddInt64(&c, int64(len(k)+len(tagOf(x)))) })
		r = int(c)
	case "MapAsync":
		r = o.MapAsync(func(k string, x any) any { return k + tagOf(x) })
	case "GetTF":
		if o.KeyExists(key) {
			r = fpValue(o.GetTF("." + key))
		}
	case "TypeOfTF":
		r = o.TypeOfTF("." + key)
	}
	return fingerprint(op, r)
}

// runReaders runs the concurrent-readers comparison under a watchdog (20 s against milliseconds of
// work): an operation that never returns - e.g. an async variant waiting for a signal nobody sends on
// an empty container - becomes a report instead of a shard that stops making progress.
func runReaders(c *C15Case, st *Stats) error {
	done := make(chan error, 1)
	go func() {
		defer func() {
			if r := recover(); r != nil {
				done <- errf("read-only operations panicked (n=%d, object=%v): %v", c.N, c.Object, r)
			}
		}()
		done <- runReadersInner(c, st)
	}()
	select {
	case err := <-done:
		return err
	case <-time.After(20 * time.Second):
		return hangf("read-only operations %v on a shared container (n=%d, object=%v, GOMAXPROCS %d) did not finish within 20 s", c.Readers, c.N, c.Object, c.Procs)
	}
}

func runReadersInner(c *C15Case, st *Stats) error {
	// Two identical containers are built: the sequential reference runs on one, the concurrent
	// phase on the other, which nothing has touched before (so lazily initialised state inside
	// the library is first exercised by the concurrent readers).
	mk := func() func(op string, salt int) string {
		if c.Object {
			o, other := at.NewObject(), at.NewObject("k00", 1000, "extra", "e")
			for i := 0; i < c.N; i++ {
				o.Set(c15Key(i), c15Elem(i, c.Mixed))
			}
			return func(op string, salt int) string { return readOpObject(o, other, op, salt) }
		}
		// a receiver with history (spare capacity after Pop/Delete or growth), then N known elements
		l := buildFromHistory(c.History)
		for i := 0; i < c.N; i++ {
			l.Add(c15Elem(i, c.Mixed))
		}
		if c.History.Pops == 0 && len(c.History.Dels) == 0 && l.Count() > 1 {
			l.Pop() // make sure there is spare capacity behind the last element
		}
		other := at.NewList("o", 1)
		return func(op string, salt int) string { return readOpList(l, other, op, salt) }
	}
	runSeq, run := mk(), mk()
	// The concurrent phase runs FIRST, on the container nothing has touched, so that state the library
	// initialises lazily (inside the container or at package level, e.g. memo tables keyed by the
	// spelling of an index) is first exercised by the concurrent readers; the sequential reference is
	// computed afterwards on the twin.
	got := make([][]string, len(c.Readers))
	panics := make([]any, len(c.Readers))
	start := make(chan struct{})
	var wg sync.WaitGroup
	for g := range c.Readers {
		wg.Add(1)
		go func(g int) {
			defer wg.Done()
			defer func() {
				if r := recover(); r != nil {
					panics[g] = r
				}
			}()
			<-start
			for j, op := range c.Readers[g] {
				got[g] = append(got[g], run(op, g*7+j))
			}
		}(g)
	}
	close(start)
	wg.Wait()
	want := make([][]string, len(c.Readers))
	for g, ops := range c.Readers {
		for j, op := range ops {
			var fp string
			if p, panicked := catch(func() { fp = runSeq(op, g*7+j) }); panicked {
				return errf("read-only operation %s panicked sequentially: %v", op, p)
			}
			want[g] = append(want[g], fp)
		}
	}
	allocating := 0
	for g := range c.Readers {
		if panics[g] != nil {
			return errf("goroutine %d panicked while running read-only operations %v concurrently: %v", g, c.Readers[g], panics[g])
		}
		for j := range want[g] {
			if j >= len(got[g]) || got[g][j] != want[g][j] {
				gv := "<missing>"
				if j < len(got[g]) {
					gv = got[g][j]
				}
				return errf("goroutine %d: %s gave %s concurrently, %s sequentially", g, c.Readers[g][j], clip(gv, 200), clip(want[g][j], 200))
			}
			switch c.Readers[g][j] {
			case "Concat", "ConcatSelf", "Clone", "SubList", "Filter", "Map", "MapValues", "Merge", "MergeSelf", "Pluck", "Keys", "Values", "MapAsync", "FilterInts", "MapInts":
				allocating++
			}
		}
	}
	if allocating >= 2 {
		st.MarkNonTrivial()
	}
	for _, ops := range c.Readers {
		for _, op := range ops {
			st.Count("readop." + op)
		}
	}
	return nil
}

func CheckC15(c *C15Case, st *Stats) error {
	procs := c.Procs
	if procs < 1 || procs > 64 {
		procs = 4
	}
	old := runtime.GOMAXPROCS(procs)
	defer runtime.GOMAXPROCS(old)
	st.Count(fmt.Sprintf("gomaxprocs.%d", procs))
	kind := "list"
	if c.Object {
		kind = "object"
	}
	st.Count("sub." + c.Sub + "." + kind)
	if c.N == 0 {
		st.Count("size.0")
	} else if c.N == 1 {
		st.Count("size.1")
	}
	switch c.Sub {
	case "foreach":
		return runGated(c, st)
	case "mapasync":
		return runMapAsync(c, st)
	case "readers":
		return runReaders(c, st)
	}
	return nil
}

func init() {
	p := Register("C15",
		"three sub-checks, binary built with -race (halt_on_error), GOMAXPROCS drawn from {1,2,4,16}. foreach: list/object of size 0,1,2..40, 64, 65, 100, 130; every callback signals arrival and blocks on its own gate; a controller opens the gates in a drawn permutation; every callback must have been started within 20 s although the others are held back (calls run independently); at the instant ForEachAsync returns all n callbacks must have returned, each (index|key, value) exactly once, receiver returned. mapasync: MapAsync vs Map with a pure tagging function that yields a drawn number of times per element and, in one case of three, returns unusual supported values for every fourth element (nil, infinities, zero values, a string that is not valid UTF-8, sized numbers, native slices and maps). readers: 2-8 goroutines released together, each running 1-6 drawn non-mutating operations (41 list / 27 object operations incl. Concat on a receiver with spare capacity, Clone, SubList, Filter, Map, Merge, Keys, String, tree-form reads, aggregates, nested ForEachAsync/MapAsync) on one shared container; results must equal the sequential results computed on a twin container (the shared one is untouched until the goroutines start) (order-insensitively where the library's order is random) and the race detector must stay silent. Non-trivial = foreach with n >= 2 and a release order different from index order or GOMAXPROCS > 1; mapasync with n >= 2 and GOMAXPROCS > 1; readers with at least two allocating operations. Distinct = distinct FNV-64a hash of the case JSON. The pure function of the mapasync sub-check treats floats and ints in one of five ways (x+1, -x, |x|, x itself, x*0; elements include +0.0 and -0.0, compared bit for bit), and the Map result and the MapAsync result must be indistinguishable through every read-only operation of the readers sub-check (46 list / 27 object operations incl. all All* predicates; results above 130 elements: predicates, folds, typed views, lookups).",
		GenC15, CheckC15)
	p.PreWrite = true
}
